"""Input generators: structured derive inputs (so that metamorphic transforms can rewrite them),
exhaustive grids over the discrete cells of the rendering/validation decisions, seeded random
composites, a malformed stream and token soup.  Every random choice comes from the Random passed in."""
import itertools, random, copy

BASIC = ['owned_into', 'ref_into', 'from_owned', 'from_ref', 'owned_into_existing', 'ref_into_existing']
SHORT = {
    'into': ['owned_into', 'ref_into'], 'from': ['from_owned', 'from_ref'],
    'map_owned': ['from_owned', 'owned_into'], 'map_ref': ['from_ref', 'ref_into'],
    'map': ['from_owned', 'from_ref', 'owned_into', 'ref_into'],
    'into_existing': ['owned_into_existing', 'ref_into_existing'],
}
INFALLIBLE = BASIC + list(SHORT)


def try_name(n):
    """the fallible spelling of an infallible instruction name"""
    if n.startswith('owned_') or n.startswith('ref_'):
        a, b = n.split('_', 1)
        return a + '_try_' + b
    return 'try_' + n


FALLIBLE = [try_name(n) for n in INFALLIBLE]
TRAIT_NAMES = INFALLIBLE + FALLIBLE                      # the 24 trait instruction names
MEMBER_MAP_NAMES = INFALLIBLE + [n for n in FALLIBLE if 'existing' not in n]   # 12 + 9 = 21
GHOSTS = ['ghost', 'ghost_owned', 'ghost_ref']


def basics_of(name):
    """documented expansion of an instruction name into basic instruction names"""
    fall = name in FALLIBLE or 'try_' in name
    base = name.replace('try_', '') if fall else name
    bs = SHORT.get(base, [base])
    return [try_name(b) for b in bs] if fall else bs


def is_fallible(name):
    return 'try_' in name


def kinds_of(name):
    """set of (basic kind name, fallible) an instruction name stands for"""
    fall = is_fallible(name)
    base = name.replace('try_', '')
    return [(b, fall) for b in SHORT.get(base, [base])]


class Attr:
    def __init__(self, name, args=None, o2o=False, delim='()', ded=None):
        self.name = name
        self.args = args          # None: no argument list
        self.o2o = o2o
        self.delim = delim
        self.ded = ded            # counterpart this instruction is dedicated to (rendered `ded| args`)

    def full_args(self):
        if getattr(self, 'bare_ded', False):
            return self.ded           # `#[ghost(Type)]`: dedicated, written without the bar
        if self.ded is None:
            return self.args
        return '%s| %s' % (self.ded, self.args or '')

    def inner(self):
        a = self.full_args()
        if a is None:
            return self.name
        return '%s%s%s%s' % (self.name, self.delim[0], a, self.delim[1])

    def render(self):
        if self.o2o:
            return '#[o2o(%s)]' % self.inner()
        return '#[%s]' % self.inner()

    def clone(self, **kw):
        a = copy.copy(self)
        for k, v in kw.items():
            setattr(a, k, v)
        return a


class Group:
    """several instructions in one #[o2o(a(..), b(..))] list"""
    def __init__(self, attrs):
        self.attrs = attrs

    def render(self):
        return '#[o2o(%s)]' % ', '.join(a.inner() for a in self.attrs)


class Field:
    def __init__(self, name, ty='i32', attrs=None):
        self.name = name          # str for named, None for tuple fields
        self.ty = ty
        self.attrs = attrs or []

    def render(self):
        a = ' '.join(x.render() for x in self.attrs)
        if self.name is None:
            return ('%s %s' % (a, self.ty)).strip()
        return ('%s %s: %s' % (a, self.name, self.ty)).strip()


class Variant:
    def __init__(self, name, shape='unit', fields=None, attrs=None):
        self.name = name
        self.shape = shape        # unit | tuple | named
        self.fields = fields or []
        self.attrs = attrs or []

    def render(self):
        a = ' '.join(x.render() for x in self.attrs)
        if self.shape == 'unit':
            body = ''
        elif self.shape == 'tuple':
            body = '(%s)' % ', '.join(f.render() for f in self.fields)
        else:
            body = ' { %s }' % ', '.join(f.render() for f in self.fields)
        return ('%s %s%s' % (a, self.name, body)).strip()


class Item:
    def __init__(self, kind, name, shape='named', generics='', attrs=None, members=None, meta=None):
        self.kind = kind          # struct | enum | union
        self.name = name
        self.shape = shape        # named | tuple | unit (structs)
        self.generics = generics
        self.where = ''            # the item's own where-clause predicates (text), e.g. 'T: Clone, U: Copy'
        self.attrs = attrs or []
        self.members = members or []
        self.meta = meta or {}

    def render(self):
        a = '\n'.join(x.render() for x in self.attrs)
        if self.kind == 'enum':
            body = ' { %s }' % ', '.join(m.render() for m in self.members)
        elif self.kind == 'union':
            body = ' { %s }' % ', '.join(m.render() for m in self.members)
        elif self.shape == 'named':
            body = ' { %s }' % ', '.join(m.render() for m in self.members)
        elif self.shape == 'tuple':
            body = '(%s)%s;' % (', '.join(m.render() for m in self.members), (' where ' + self.where) if getattr(self, 'where', '') else '')
        else:
            body = ';'
        w = getattr(self, 'where', '')
        if w and not (self.kind == 'struct' and self.shape == 'tuple'):
            return '%s\n%s %s%s where %s%s' % (a, self.kind, self.name, self.generics, w, body)
        return '%s\n%s %s%s%s' % (a, self.kind, self.name, self.generics, body)

    def clone(self):
        return copy.deepcopy(self)


def all_attr_lists(item):
    """every list of Attr/Group objects in the item (type level, members, variant fields)"""
    yield item.attrs
    for m in item.members:
        yield m.attrs
        if isinstance(m, Variant):
            for f in m.fields:
                yield f.attrs


# ---------------------------------------------------------------------------------------------
# grid 1: render_struct_line cells
# ---------------------------------------------------------------------------------------------
HINTS = [('', 'A'), (' as {}', 'A'), (' as ()', 'A'), (' as Unit', 'A'), ('', '(i32, i16)')]


def trait_attr(name, ty='A', hint='', err='Er', params=''):
    args = ty + hint
    if is_fallible(name):
        args += ', ' + err
    if params:
        args += '| ' + params
    a = Attr(name, args)
    a.cp, a.hint, a.err, a.params = ty, hint.strip(), (err if is_fallible(name) else None), params
    return a


def member_forms(named, pos):
    """member-instruction forms for the target field; `m` is the rename target (ident or index)"""
    m = 'm%d' % pos if named else str(pos + 3)
    forms = [
        ('none', []),
        ('rename', [Attr('map', m)]),
        ('action', [Attr('map', '~.c%d()' % pos)]),
        ('both', [Attr('map', '%s, ~.c%d()' % (m, pos))]),
        ('at', [Attr('map', '@.q%d + 1' % pos)]),
        ('braced', [Attr('map', '%s, { ~ + @.z }' % m)]),
        ('empty', [Attr('map', '')]),
        ('ghost', [Attr('ghost')]),
        ('ghostd', [Attr('ghost', '{ d%d() }' % pos)]),
        ('as', [Attr('as_type', 'i64')]),
        ('asm', [Attr('as_type', '%s, i64' % m)]),
        ('child', [Attr('child', 'p')]),
        ('childm', [Attr('child', 'p.q'), Attr('map', m)]),
        ('parent', [Attr('parent')]),
        ('pparent', [Attr('parent', 'x, [map(yy)] y')]),
        ('pparent2', [Attr('parent', '[parent(u)] t: T, 0')]),
    ]
    return forms


def grid_struct_lines(names=None, hints=None, shapes=('named', 'tuple')):
    names = names or (BASIC + [try_name(b) for b in BASIC])
    hints = hints or HINTS
    out = []
    for shape in shapes:
        named = shape == 'named'
        for skipped in (False, True):
            pos = 1 if skipped else 0
            for fname, fattrs in member_forms(named, pos):
                for tname in names:
                    for hi, (hint, ty) in enumerate(hints):
                        fields = []
                        if skipped:
                            fields.append(Field('g' if named else None, 'u8', [Attr('ghost', '{ 0 }')]))
                        fty = 'P' if 'parent' in fname else 'i32'
                        fields.append(Field('a' if named else None, fty, [x.clone() for x in fattrs]))
                        fields.append(Field('b' if named else None, 'i16', []))
                        attrs = [trait_attr(tname, ty, hint)]
                        if fname.startswith('child'):
                            attrs.append(Attr('child_parents', 'p: P, p.q: Q'))
                        it = Item('struct', 'S', shape, '', attrs, fields,
                                  {'grid': 'struct_line', 'shape': shape, 'skipped': skipped, 'form': fname,
                                   'instr': tname, 'hint': hint.strip(), 'ty': ty})
                        out.append(it)
    return out


# ---------------------------------------------------------------------------------------------
# grid 2: render_enum_line / variant_destruct_block cells
# ---------------------------------------------------------------------------------------------
def variant_forms():
    return [
        ('none', []),
        ('rename', [Attr('map', 'W')]),
        ('expr', [Attr('map', '{ h(~) }')]),
        ('from_expr', [Attr('from', 'W, { A::W2(~) }')]),
        ('ghost', [Attr('ghost')]),
        ('ghostd', [Attr('ghost', '{ dv() }')]),
    ]


def grid_enum_lines(names=None, full=True):
    names = names or (BASIC + [try_name(b) for b in BASIC])
    out = []
    vhints = ['', 'as {}', 'as ()', 'as Unit']
    tghosts = [None, 'Z: { zz() }', 'Z(x): { zx(x) }']
    for vshape in ('unit', 'tuple', 'named'):
        for vh in vhints:
            for vfname, vfattrs in variant_forms():
                for lit in (False, True):
                    for pat in (False, True):
                        for tname in names:
                            for dc in (False, True):
                                for tg in (tghosts if full else tghosts[:1]):
                                    vattrs = [x.clone() for x in vfattrs]
                                    if vh:
                                        vattrs.append(Attr('type_hint', vh))
                                    if lit:
                                        vattrs.append(Attr('literal', '7'))
                                    if pat:
                                        vattrs.append(Attr('pattern', '8..=9'))
                                    if vshape == 'unit':
                                        fields = []
                                    elif vshape == 'tuple':
                                        fields = [Field(None, 'i32', []), Field(None, 'i16', [Attr('map', 'k')])]
                                    else:
                                        fields = [Field('x', 'i32', []), Field('y', 'i16', [Attr('map', 'k')])]
                                    v = Variant('V', vshape, fields, vattrs)
                                    attrs = [trait_attr(tname, 'A', '', 'Er', '_ => dflt()' if dc else '')]
                                    if tg:
                                        attrs.append(Attr('ghosts', tg))
                                    it = Item('enum', 'E', 'named', '', attrs, [v, Variant('U', 'unit')],
                                              {'grid': 'enum_line', 'vshape': vshape, 'vhint': vh, 'vform': vfname, 'lit': lit,
                                               'pat': pat, 'instr': tname, 'default': dc, 'tghosts': tg})
                                    out.append(it)
    return out


# payload fields inside variants: member forms x variant shape x hint x kind
def grid_variant_fields(names=None):
    names = names or (BASIC + [try_name(b) for b in BASIC])
    out = []
    for vshape in ('tuple', 'named'):
        named = vshape == 'named'
        for vh in ['', 'as {}', 'as ()', 'as Unit']:
            for skipped in (False, True):
                pos = 1 if skipped else 0
                for fname, fattrs in member_forms(named, pos):
                    if 'parent' in fname or 'child' in fname:
                        continue
                    for tname in names:
                        for vg in (None, 'gg: { 1 }', '5: { 2 }'):
                            fields = []
                            if skipped:
                                fields.append(Field('g' if named else None, 'u8', [Attr('ghost', '{ 0 }')]))
                            fields.append(Field('a' if named else None, 'i32', [x.clone() for x in fattrs]))
                            fields.append(Field('b' if named else None, 'i16', []))
                            vattrs = []
                            if vh:
                                vattrs.append(Attr('type_hint', vh))
                            if vg:
                                vattrs.append(Attr('ghosts', vg))
                            v = Variant('V', vshape, fields, vattrs)
                            it = Item('enum', 'E', 'named', '', [trait_attr(tname, 'A')], [v, Variant('U', 'unit')],
                                      {'grid': 'variant_field', 'vshape': vshape, 'vhint': vh, 'skipped': skipped, 'form': fname,
                                       'instr': tname, 'vghosts': vg})
                            out.append(it)
    return out


# ---------------------------------------------------------------------------------------------
# grid 3: trait instructions (C04): every name x item kind x counterpart form x error form
# ---------------------------------------------------------------------------------------------
COUNTERPARTS = ['A', 'x::y::A', '::x::A', 'A<T>', "A<'a, T>", 'x::A::<u8>', '(i32, String)', '(i32,)', '::x::A<u8>', '::x::y::A::<T>', 'A as {}', 'A as ()', 'A as Unit']
ERRORS = ['Er', 'x::Er', 'Er<String>', "Er<'a, u8>", 'std::io::Error', '::x::Er<u8>']


def grid_trait_instrs():
    out = []
    for kind in ('struct', 'enum'):
        for name in TRAIT_NAMES:
            for cp in COUNTERPARTS:
                errs = ERRORS if is_fallible(name) else [None]
                for err in errs:
                    ty, _, h = cp.partition(' as ')
                    ta = trait_attr(name, ty, (' as ' + h) if h else '', err or 'Er')     # carries .cp / .hint / .err for the header oracle
                    if kind == 'struct':
                        it = Item('struct', 'S', 'named', '', [ta], [Field('a', 'i32'), Field('b', 'i16')])
                    else:
                        it = Item('enum', 'E', 'named', '', [ta], [Variant('V'), Variant('W', 'tuple', [Field(None, 'i32')])])
                    it.meta = {'grid': 'trait_instr', 'kind': kind, 'instr': name, 'counterpart': cp, 'err': err}
                    out.append(it)
    return out


# ---------------------------------------------------------------------------------------------
# random composites
# ---------------------------------------------------------------------------------------------
EXPRS = ['~.clone()', '@.k + 1', 'f(~, @.z)', '{ ~ * 2 }', 'g::<u8>(~)', '|x| x + ~', "h('~', \"@\", ~)", '~.0[~.1]', 'vec![~, @.len]',
         '~ as u8', '&'"'"'static ~', 'm!{~; @}', '(~, (@, [~; 2]))', '~..=@.n', 'if @.b { ~ } else { !~ }', 'Default::default()']


def rand_expr(rng):
    return rng.choice(EXPRS)


def rand_counterparts(rng, n):
    pool = ['A', 'B', 'C', 'x::D', 'G<T>', "H<'a>"]
    rng.shuffle(pool)
    return pool[:n]


def rand_params(rng, kind, enum=False):
    ps = []
    if rng.random() < 0.25:
        ps.append('vars(v1: { %s }%s)' % (rand_expr(rng), ', v2: { 2 }' if rng.random() < 0.5 else ''))
    for nm in ('attribute', 'impl_attribute', 'inner_attribute'):
        if rng.random() < 0.12:
            ps.append('%s(%s)' % (nm, rng.choice(['inline', 'allow(unused)', 'cfg(any())', 'doc = "x"'])))
    tail = None
    r = rng.random()
    if r < 0.12:
        tail = '..%s' % rng.choice(['Default::default()', '@.base()', '{ base(@) }'])
    elif r < 0.2:
        tail = 'return %s' % rng.choice(['mk(@)', '{ @.conv() }', 'X { a: ~x }'])
    elif r < 0.3 and enum:
        tail = '_ => %s' % rng.choice(['panic!()', 'Self::dflt()', 'todo!()'])
    if tail:
        ps.append(tail)
    return ', '.join(ps)


def rand_member_attr(rng, named, cps, idx, allow_special=True):
    """one member-level instruction, in default or dedicated form"""
    ded = rng.choice(cps) if (cps and rng.random() < 0.35) else None
    r = rng.random()
    m = ('n%d' % rng.randrange(6)) if (named or rng.random() < 0.3) else str(rng.randrange(5))
    if r < 0.55:
        name = rng.choice(MEMBER_MAP_NAMES)
        form = rng.random()
        if form < 0.4:
            args = m
        elif form < 0.65:
            args = rand_expr(rng)
        elif form < 0.9:
            args = '%s, %s' % (m, rand_expr(rng))
        else:
            args = ''
        return Attr(name, args, ded=ded)
    if r < 0.7:
        name = rng.choice(GHOSTS)
        o2o = name != 'ghost' or rng.random() < 0.3
        if rng.random() < 0.6:
            return Attr(name, '{ %s }' % rng.choice(['0', 'None', 'dd()', '@.x + 1']), o2o=o2o, ded=ded)
        if ded:
            return Attr(name, '', o2o=o2o, ded=ded)
        return Attr(name, None, o2o=o2o)
    if r < 0.78:
        return Attr('as_type', rng.choice(['i64', 'f32', m + ', u8']), ded=ded)
    if not allow_special:
        return Attr('map', m, ded=ded)
    if r < 0.88:
        return Attr('child', rng.choice(['p', 'p.q', 'r', 'p.q.s']), ded=ded)
    if r < 0.93:
        q = rng.random()
        if q < 0.4:
            return Attr('parent', '' if ded else None, ded=ded)
        return Attr('parent', rng.choice(['x, y', '[map(z)] x', 'x, [parent(w)] v: V', '0, [map(k)] 1']), ded=ded)
    if r < 0.97:
        return Attr(rng.choice(['repeat', 'skip_repeat', 'stop_repeat']), None if rng.random() < 0.6 else rng.choice(['', 'map', 'ghost, child']))
    return Attr(rng.choice(['literal', 'pattern', 'type_hint', 'where_clause', 'children', 'foo']), rng.choice(['1', 'as {}', 'T: X']))


def rand_struct(rng, idx=0, max_fields=6):
    shape = rng.choice(['named', 'named', 'tuple', 'tuple', 'unit'])
    named = shape == 'named'
    ncp = rng.choice([1, 1, 2, 2, 3])
    cps = rand_counterparts(rng, ncp)
    attrs = []
    for cp in cps:
        for _ in range(rng.choice([1, 1, 2])):
            name = rng.choice(TRAIT_NAMES)
            hint = rng.choice(['', '', '', ' as {}', ' as ()', ' as Unit'])
            err = rng.choice(['Er', 'x::Er', 'Er<u8>'])
            attrs.append(trait_attr(name, cp, hint, err, rand_params(rng, name)))
    if rng.random() < 0.35:
        ded = rng.choice(cps) if rng.random() < 0.4 else None
        attrs.append(Attr(rng.choice(['ghosts', 'ghosts_owned', 'ghosts_ref']),
                          rng.choice(['gx: { 1 }', 'gx: { 1 }, gy: { @.t }', 'p@gz: { 2 }', '0: { 3 }', 'p.q@w: { 4 }']), ded=ded))
    if rng.random() < 0.4:
        ded = rng.choice(cps) if rng.random() < 0.3 else None
        attrs.append(Attr('child_parents', rng.choice(['p: P', 'p: P, p.q: Q', 'p: P, p.q: Q, p.q.s: Sx, r: R', 'p: P as (), r: R as {}']), ded=ded))
    if rng.random() < 0.15:
        ded = rng.choice(cps) if rng.random() < 0.3 else None
        attrs.append(Attr('where_clause', rng.choice(['T: Clone', "T: Into<u8> + 'a, U: x::Y"]), ded=ded))
    rng.shuffle(attrs)
    fields = []
    nf = 0 if shape == 'unit' else rng.randrange(1, max_fields + 1)
    for i in range(nf):
        fa = []
        for _ in range(rng.choice([0, 0, 1, 1, 1, 2, 3])):
            fa.append(rand_member_attr(rng, named, cps, i))
        fields.append(Field(('a%d' % i) if named else None, rng.choice(['i32', 'String', 'P', 'x::Q', 'Vec<u8>', '(i32, u8)']), fa))
    gen = rng.choice(['', '', '', '<T>', "<'a, T: Clone>", "<'a>", '<const N: usize>'])
    return Item('struct', 'S%d' % idx, shape, gen, attrs, fields, {'gen': 'rand_struct'})


def rand_enum(rng, idx=0):
    ncp = rng.choice([1, 1, 2])
    cps = rand_counterparts(rng, ncp)
    attrs = []
    for cp in cps:
        for _ in range(rng.choice([1, 1, 2])):
            name = rng.choice([n for n in TRAIT_NAMES if 'existing' not in n or rng.random() < 0.1])
            attrs.append(trait_attr(name, cp, '', rng.choice(['Er', 'x::Er']), rand_params(rng, name, enum=True)))
    if rng.random() < 0.3:
        ded = rng.choice(cps) if rng.random() < 0.4 else None
        attrs.append(Attr(rng.choice(['ghosts', 'ghosts_owned', 'ghosts_ref']),
                          rng.choice(['Gx: { E::V0 }', 'Gy(a, b): { mk(a, b) }', 'Gz { k, .. }: { mk2(k) }']), ded=ded))
    variants = []
    for i in range(rng.randrange(1, 5)):
        vshape = rng.choice(['unit', 'tuple', 'named'])
        va = []
        for _ in range(rng.choice([0, 0, 1, 1, 2])):
            r = rng.random()
            ded = rng.choice(cps) if rng.random() < 0.3 else None
            if r < 0.4:
                nm = rng.choice(MEMBER_MAP_NAMES)
                va.append(Attr(nm, rng.choice(['W%d' % i, '{ conv(~) }', 'W%d, { A::X(~) }' % i, 'W%d, %s' % (i, rand_expr(rng))]), ded=ded))
            elif r < 0.55:
                va.append(Attr('type_hint', rng.choice(['as {}', 'as ()', 'as Unit']), ded=ded))
            elif r < 0.7:
                if rng.random() < 0.7:
                    va.append(Attr(rng.choice(GHOSTS), rng.choice(['{ dflt() }', '']), o2o=True, ded=ded))
                else:
                    va.append(Attr(rng.choice(GHOSTS), None, o2o=True))
            elif r < 0.8:
                va.append(Attr('literal', rng.choice(['1', '"x"', "'c'", '2u8']), ded=ded))
            elif r < 0.9:
                va.append(Attr('pattern', rng.choice(['_', '3..=5', '"a" | "b"']), ded=ded))
            else:
                va.append(Attr(rng.choice(['ghosts', 'repeat', 'stop_repeat', 'skip_repeat']), rng.choice(['gq: { 0 }', '9: { 1 }']) if r < 0.95 else None))
        fields = []
        if vshape != 'unit':
            for j in range(rng.randrange(0, 4)):
                fa = [rand_member_attr(rng, vshape == 'named', cps, j, allow_special=False) for _ in range(rng.choice([0, 0, 1, 1, 2]))]
                fields.append(Field(('x%d' % j) if vshape == 'named' else None, rng.choice(['i32', 'String']), fa))
        variants.append(Variant('V%d' % i, vshape, fields, va))
    return Item('enum', 'E%d' % idx, 'named', rng.choice(['', '', '<T>', "<'a>"]), attrs, variants, {'gen': 'rand_enum'})


def composites(rng, n):
    out = []
    for i in range(n):
        out.append(rand_struct(rng, i) if rng.random() < 0.65 else rand_enum(rng, i))
    return out


# ---------------------------------------------------------------------------------------------
# token soup (C16): arbitrary argument token trees on every instruction name, any level
# ---------------------------------------------------------------------------------------------
SOUP_ATOMS = ['@', '~', '|', ',', ':', '.', '..', 'as', 'return', '_', '=', '=>', '::', '<', '>', '&', "'a", '+', '-', '!', '?', '#', ';',
              'x', 'y', 'A', 'B', 'Unit', 'vars', 'repeat', 'skip_repeat', 'stop_repeat', 'permeate', 'attribute', 'map', 'parent',
              'child', 'ghost', '0', '1', '2.5', '"s"', "'c'", '1u8', 'self', 'Self', 'super', 'crate', 'mut', 'fn', 'type']
ALL_INSTR = sorted(set(TRAIT_NAMES + MEMBER_MAP_NAMES + GHOSTS + ['ghosts', 'ghosts_owned', 'ghosts_ref', 'child', 'parent', 'as_type',
                       'literal', 'pattern', 'repeat', 'skip_repeat', 'stop_repeat', 'type_hint', 'child_parents', 'where_clause',
                       'children', 'allow_unknown', 'o2o', 'doc', 'foo']))


def soup_tokens(rng, depth=0, n=None):
    n = rng.randrange(0, 7) if n is None else n
    out = []
    for _ in range(n):
        r = rng.random()
        if r < 0.18 and depth < 3:
            o, c = rng.choice(['()', '{}', '[]'])
            out.append(o + soup_tokens(rng, depth + 1) + c)
        else:
            out.append(rng.choice(SOUP_ATOMS))
    return ' '.join(out)


def soup(rng, n):
    out = []
    for i in range(n):
        kind = rng.choice(['struct', 'struct', 'enum'])
        def mk_attrs(k):
            l = []
            for _ in range(k):
                name = rng.choice(ALL_INSTR)
                r = rng.random()
                if r < 0.1:
                    a = Attr(name, None)
                elif r < 0.15:
                    a = Attr(name, soup_tokens(rng), delim=rng.choice(['{}', '[]']))
                else:
                    a = Attr(name, soup_tokens(rng))
                if name not in ('o2o', 'doc') and rng.random() < 0.3:
                    a.o2o = True
                l.append(a)
            return l
        attrs = mk_attrs(rng.randrange(1, 4))
        if rng.random() < 0.7:
            attrs.insert(0, trait_attr(rng.choice(TRAIT_NAMES), rng.choice(['A', 'A as {}', 'A as ()', '(i32, u8)'])))
        if kind == 'struct':
            shape = rng.choice(['named', 'tuple', 'unit'])
            fields = [] if shape == 'unit' else [Field(('a%d' % j) if shape == 'named' else None, rng.choice(['i32', 'P', '[u8; 4]']),
                                                       mk_attrs(rng.choice([0, 1, 1, 2]))) for j in range(rng.randrange(0, 4))]
            out.append(Item('struct', 'S', shape, '', attrs, fields, {'gen': 'soup'}))
        else:
            vs = []
            for j in range(rng.randrange(1, 4)):
                vshape = rng.choice(['unit', 'tuple', 'named'])
                fs = [] if vshape == 'unit' else [Field(('x%d' % q) if vshape == 'named' else None, 'i32', mk_attrs(rng.choice([0, 0, 1])))
                                                  for q in range(rng.randrange(0, 3))]
                vs.append(Variant('V%d' % j, vshape, fs, mk_attrs(rng.choice([0, 1, 1, 2]))))
            out.append(Item('enum', 'E', 'named', '', attrs, vs, {'gen': 'soup'}))
    return out


ODD_MEMBERS = ['1e3', '2E1', '1e0', '0.1', '1.', '0.', '.5', '1.0e-3', '4294967296', '99999999999999999999', '1_000', '0x1f', '0b1', '0o7', '1u8',
               '1usize', '1f32', '-1', 'r#type', 'self', 'Self', '_', "'a", '"s"', "b'x'", 'true', '00', '01', '1 .0', '0.0.0', '1.2.3', 'x.1e3', '()', '[0]']


def odd_member_cases(rng, n):
    """otherwise ordinary inputs in which ONE member position (a child path segment, a #[child_parents] key, a #[ghosts] path or
    field, a rename, a nested parent member, a tuple index) is an unusual token: exponent / dotted floats, huge or suffixed or
    radix integers, raw identifiers, keywords, literals of other kinds.  Such inputs must be diagnosed, never panic (C16)."""
    out = []
    for i in range(n):
        odd = rng.choice(ODD_MEMBERS)
        slot = rng.randrange(10)
        named = rng.random() < 0.6
        tn = rng.choice(['map', 'into', 'from', 'owned_into', 'into_existing', 'try_map', 'from_ref'])
        attrs = [trait_attr(tn, 'A', rng.choice(['', '', ' as {}', ' as ()']))]
        fa, fb = [], []
        if slot == 0:
            attrs.append(Attr('child_parents', 'base: Base')); fa.append(Attr('child', 'base.%s' % odd))
        elif slot == 1:
            attrs.append(Attr('child_parents', 'base: Base, base.%s: Inner' % odd)); fa.append(Attr('child', 'base'))
        elif slot == 2:
            attrs.append(Attr('child_parents', 'base: Base, base.%s: Inner' % odd)); attrs.append(Attr('ghosts', 'base.%s@g: { 1 }' % odd)); fa.append(Attr('child', 'base'))
        elif slot == 3:
            attrs.append(Attr('ghosts', '%s: { 1 }' % odd))
        elif slot == 4:
            fa.append(Attr(rng.choice(['map', 'into', 'from', 'map_ref']), rng.choice(['%s', '%s, ~ + 1', '%s, { ~ }']) % odd))
        elif slot == 5:
            fa.append(Attr('parent', rng.choice(['%s', 'x, %s', '[map(%s)] x', '[parent(%s)] inner: Inner', '[parent(u)] %s: Inner', '%s: T']) % odd))
        elif slot == 6:
            fa.append(Attr('as_type', rng.choice(['%s, i64', '%s']) % odd))
        elif slot == 7:
            fa.append(Attr('child', odd)); attrs.append(Attr('child_parents', '%s: Base' % odd))
        elif slot == 8:
            attrs.append(Attr('ghosts', 'base@%s: { 1 }' % odd)); attrs.append(Attr('child_parents', 'base: Base'))
        else:
            fa.append(Attr('ghost', rng.choice(['%s', '{ %s }']) % odd))
        fields = [Field('a' if named else None, 'i32', fa), Field('b' if named else None, 'i16', fb)]
        rng.shuffle(attrs)
        if rng.random() < 0.25 and slot not in (0, 1, 2, 7, 8):      # (a #[child] on a payload field has no #[child_parents] to go with: finding F-16d)
            vs = [Variant('V', 'named' if named else 'tuple', fields, []), Variant('W')]
            out.append(Item('enum', 'E', 'named', '', [a for a in attrs if a.name not in ('child_parents',)], vs, {'gen': 'odd_member', 'odd': odd, 'slot': slot}))
        else:
            out.append(Item('struct', 'S', 'named' if named else 'tuple', '', attrs, fields, {'gen': 'odd_member', 'odd': odd, 'slot': slot}))
    return out


# ---------------------------------------------------------------------------------------------
# metamorphic transforms
# ---------------------------------------------------------------------------------------------
BARE_FORMS = None   # filled from o2o-macros' attributes(...) list by the caller


def respell(item, rng, mode):
    """C13: rewrite instructions into #[o2o(..)] (mode 'each'), group adjacent ones (mode 'group'),
    or a random mixture (mode 'mix').  Only instructions written bare are rewritten."""
    it = item.clone()
    for lst in all_attr_lists(it):
        new = []
        i = 0
        while i < len(lst):
            a = lst[i]
            if isinstance(a, Group) or a.o2o or a.name in ('o2o', 'doc') or a.delim != '()':
                new.append(a)
                i += 1
                continue
            if mode == 'mix' and rng.random() < 0.4:
                new.append(a)                      # this one stays bare: a true mixture of the spellings
                i += 1
            elif mode == 'each' or (mode == 'mix' and rng.random() < 0.5):
                new.append(a.clone(o2o=True))
                i += 1
            elif mode == 'group' or mode == 'mix':
                j = i
                grp = []
                while j < len(lst) and isinstance(lst[j], Attr) and not lst[j].o2o and lst[j].name not in ('o2o', 'doc') and lst[j].delim == '()' \
                        and (mode == 'group' or rng.random() < 0.7 or j == i):
                    grp.append(lst[j])
                    j += 1
                new.append(Group(grp) if len(grp) > 1 else grp[0].clone(o2o=True))
                i = j
        lst[:] = new
    return it


def trailing_commas(items, rng, n):
    """the same inputs with a comma added at the end (or the start) of one directly written instruction's argument list, or of an
    #[o2o(..)] list: the two back-ends extract the argument tokens of a direct attribute in different ways (C18)"""
    out = []
    pool = [it for it in items if isinstance(it, Item)]
    tries = 0
    while pool and len(out) < n and tries < 20 * n:
        tries += 1
        it = rng.choice(pool).clone()
        cands = [(lst, i) for lst in all_attr_lists(it) for i, a in enumerate(lst) if isinstance(a, Attr) and a.args is not None]
        if not cands:
            continue
        lst, i = rng.choice(cands)
        a = lst[i].clone()
        r = rng.random()
        if r < 0.7:
            a.args = (a.args or '') + ','
        elif r < 0.85:
            a.args = (a.args or '') + ', ,'
        else:
            a.args = ', ' + (a.args or '')
        lst[i] = a
        it.meta = dict(it.meta, gen='trailing_comma')
        out.append(it)
    return out


def argless_under_switch(items, rng, n):
    """the same inputs under #[o2o(allow_unknown)] with one member-level mapping instruction emptied: `#[into]`, `#[into()]`,
    `#[o2o(into)]`, `#[o2o(into())]` - the forms a foreign crate's attribute of the same name would take (C18: the two back-ends reach
    the argument tokens of a direct attribute by different routes; C15: the switch silences only the two documented rules)"""
    out = []
    pool = [it for it in items if isinstance(it, Item)]
    tries = 0
    while pool and len(out) < n and tries < 20 * n:
        tries += 1
        it = rng.choice(pool).clone()
        lists = []
        for m in it.members:
            lists.append(m.attrs)
            if isinstance(m, Variant):
                lists += [f.attrs for f in m.fields]
        cands = [(lst, i) for lst in lists for i, a in enumerate(lst) if isinstance(a, Attr) and a.name in MEMBER_MAP_NAMES and a.ded is None]
        if not cands:
            continue
        lst, i = rng.choice(cands)
        lst[i] = lst[i].clone(args=rng.choice([None, '', '']), o2o=rng.random() < 0.25)
        if not any(isinstance(a, Attr) and a.name == 'allow_unknown' for a in it.attrs):
            it.attrs.insert(rng.randrange(len(it.attrs) + 1), Attr('allow_unknown', None, o2o=True))
        it.meta = dict(it.meta, gen='argless_under_switch')
        out.append(it)
    return out


def reserved_name_cases(rng, n):
    """inputs whose own names collide with the names the templates use: a lifetime called 'o2o, fields / parameters called value,
    other, obj, self-like paths.  What is generated for them may not compile - C19 only asks that it is the same every time, and the
    correspondence that model and implementation agree on it"""
    import re as _re
    out = []
    base = c11_cases(rng, n)
    for i, it in enumerate(base):
        text = it.render()
        r = rng.random()
        if r < 0.6:
            text = _re.sub(r"'a\b", "'o2o", text)
            if "'o2o" not in text:
                text = text.replace('struct S<', "struct S<'o2o, ", 1) if 'struct S<' in text else text.replace('struct S', "struct S<'o2o>", 1)
        elif r < 0.8:
            text = _re.sub(r"\bT\b", "value", text)
        else:
            text = _re.sub(r"\ba\b", "other", _re.sub(r"\bb\b", "obj", text))
        out.append(('reserved-%d' % i, text, dict(it.meta, gen='reserved_names')))
    return out


def toggle_parens(item):
    """C13 (OptionalParenthesizedTokenStream): an instruction without arguments written `name` <-> `name()`, bare or inside #[o2o(..)]"""
    it = item.clone()
    changed = False
    def flip(a):
        nonlocal changed
        if isinstance(a, Group):
            return Group([flip(x) for x in a.attrs]) if hasattr(a, 'attrs') else a
        if a.name in ('o2o', 'doc') or a.delim != '()' or a.ded is not None:
            return a
        if a.args is None:
            changed = True
            return a.clone(args='')
        if a.args == '':
            changed = True
            return a.clone(args=None)
        return a
    for lst in all_attr_lists(it):
        lst[:] = [flip(a) for a in lst]
    return it if changed else None


def unspell(item):
    """inverse direction: every #[o2o(x(..))] single instruction back to bare form (only names with a bare form)"""
    it = item.clone()
    for lst in all_attr_lists(it):
        for k, a in enumerate(lst):
            if isinstance(a, Attr) and a.o2o and BARE_FORMS and a.name in BARE_FORMS:
                lst[k] = a.clone(o2o=False)
    return it


def expand_shortcuts(item, level='all'):
    """C12: replace every shortcut instruction by the basic instructions it abbreviates, same arguments, same position"""
    it = item.clone()
    ghost_pairs = {'ghost': ['ghost_owned', 'ghost_ref'], 'ghosts': ['ghosts_owned', 'ghosts_ref']}
    for lst in all_attr_lists(it):
        new = []
        for a in lst:
            if isinstance(a, Group):
                inner = []
                for b in a.attrs:
                    inner += _expand_one(b, ghost_pairs)
                new.append(Group(inner))
            else:
                new += _expand_one(a, ghost_pairs)
        lst[:] = new
    return it


def _expand_one(a, ghost_pairs):
    if a.name in ghost_pairs:
        # ghost_owned / ghost_ref have no bare form: write them through o2o(..)
        return [a.clone(name=n, o2o=True) for n in ghost_pairs[a.name]]
    if a.name in TRAIT_NAMES:
        bs = basics_of(a.name)
        if len(bs) > 1:
            return [a.clone(name=n) for n in bs]
    return [a]


def has_shortcut(item):
    for lst in all_attr_lists(item):
        for a in lst:
            for b in (a.attrs if isinstance(a, Group) else [a]):
                if b.name in ('ghost', 'ghosts') or (b.name in TRAIT_NAMES and len(basics_of(b.name)) > 1):
                    return True
    return False


def uses_repeat(item):
    for lst in all_attr_lists(item):
        for a in lst:
            for b in (a.attrs if isinstance(a, Group) else [a]):
                if b.name in ('repeat', 'skip_repeat', 'stop_repeat') or (b.args and ('repeat(' in b.args or 'skip_repeat' in b.args or 'stop_repeat' in b.args)):
                    return True
    return False


# ---------------------------------------------------------------------------------------------
# C04: random multisets / orders of trait instructions that do not collide
# ---------------------------------------------------------------------------------------------
def multi_trait_items(rng, n):
    out = []
    for i in range(n):
        kind = rng.choice(['struct', 'enum'])
        cps = rng.sample(COUNTERPARTS[:7], rng.choice([1, 1, 2, 3]))
        attrs = []
        for cp in cps:
            taken = set()
            names = TRAIT_NAMES[:]
            rng.shuffle(names)
            for nm in names[:rng.choice([1, 2, 3, 5, 8])]:
                ks = set(kinds_of(nm))
                if ks & taken:
                    continue
                if kind == 'enum' and 'existing' in nm:
                    continue
                taken |= ks
                hint = '' if cp.startswith('(') else rng.choice(['', '', ' as {}', ' as ()'])
                if kind == 'enum':
                    hint = ''
                attrs.append(trait_attr(nm, cp, hint, rng.choice(ERRORS)))
        rng.shuffle(attrs)
        if kind == 'struct':
            it = Item('struct', 'S', 'named', '', attrs, [Field('a', 'i32', [Attr('map', 'x')]), Field('b', 'i16', [Attr('map', 'y')])])
        else:
            it = Item('enum', 'E', 'named', '', attrs, [Variant('V'), Variant('W', 'tuple', [Field(None, 'i32')])])
        it.meta = {'gen': 'multi_trait', 'n_instr': len(attrs), 'n_cp': len(cps)}
        out.append(it)
    return out


# ---------------------------------------------------------------------------------------------
# C13: which instructions have a bare form at their level
# ---------------------------------------------------------------------------------------------
TYPE_LEVEL_VALID = set(TRAIT_NAMES) | {'ghosts', 'ghosts_ref', 'ghosts_owned', 'child_parents', 'where_clause'}
MEMBER_LEVEL_VALID = set(MEMBER_MAP_NAMES) | {'ghost', 'ghost_ref', 'ghost_owned', 'ghosts', 'ghosts_ref', 'ghosts_owned', 'child', 'parent',
                                              'as_type', 'literal', 'pattern', 'type_hint', 'repeat', 'skip_repeat', 'stop_repeat'}


def all_bare_valid(item):
    """every instruction of the item is one that exists at the level it is written on (and has a bare form)"""
    def ok(a, valid):
        if isinstance(a, Group):
            return all(ok(b, valid) for b in a.attrs)
        if a.name in ('doc',):
            return True
        if BARE_FORMS is not None and a.name not in BARE_FORMS:
            return a.o2o and a.name in valid
        return a.name in valid
    if not all(ok(a, TYPE_LEVEL_VALID) for a in item.attrs):
        return False
    for m in item.members:
        if not all(ok(a, MEMBER_LEVEL_VALID) for a in m.attrs):
            return False
        if isinstance(m, Variant):
            for f in m.fields:
                if not all(ok(a, MEMBER_LEVEL_VALID) for a in f.attrs):
                    return False
    return True


# ---------------------------------------------------------------------------------------------
# C12: shortcuts at every level, incl. the nested [instr(..)] level of #[parent(..)]
# ---------------------------------------------------------------------------------------------
def shortcut_items(rng, n):
    out = []
    shorts = [x for x in TRAIT_NAMES if len(basics_of(x)) > 1]
    mshorts = [x for x in MEMBER_MAP_NAMES if len(basics_of(x)) > 1]
    nshorts = [x for x in INFALLIBLE if len(basics_of(x)) > 1]
    for i in range(n):
        named = rng.random() < 0.6
        tname = rng.choice(shorts)
        cp = rng.choice(['A', 'B<u8>', 'x::C'])
        attrs = [trait_attr(tname, cp, rng.choice(['', '', ' as {}', ' as ()']))]
        if rng.random() < 0.4:
            attrs.append(trait_attr(rng.choice(shorts), 'Z', ''))
        if rng.random() < 0.15:
            # a second instruction for the SAME counterpart: where the two request one impl twice the input is rejected, in
            # shortcut form exactly as written out
            attrs.insert(rng.randrange(len(attrs) + 1), trait_attr(rng.choice(TRAIT_NAMES), cp, ''))
        if rng.random() < 0.4:
            attrs.append(Attr('ghosts', rng.choice(['gx: { 1 }', 'gx: { @.k }, gy: { 2 }', '7: { 3 }'])))
        fields = []
        for j in range(rng.randrange(1, 5)):
            fa = []
            r = rng.random()
            m = ('n%d' % j) if named or rng.random() < 0.5 else str(j)
            if r < 0.35:
                fa.append(Attr(rng.choice(mshorts), rng.choice([m, '%s, ~.c()' % m, '~ + 1', '%s, { @.x }' % m])))
            elif r < 0.5:
                fa.append(Attr('ghost', rng.choice(['{ 0 }', '{ @.d }'])))
            elif r < 0.6:
                fa.append(Attr('ghost'))
            elif r < 0.75:
                fa.append(Attr('parent', rng.choice(['[%s(zz)] y' % rng.choice(nshorts), 'x, [%s(w, ~ * 2)] y' % rng.choice(nshorts),
                                                      '[%s(q)] 0, [%s(r)] 1' % (rng.choice(nshorts), rng.choice(nshorts))])))
            if rng.random() < 0.3:
                fa.append(Attr(rng.choice(mshorts), m))
            fields.append(Field(('a%d' % j) if named else None, 'i32', fa))
        if rng.random() < 0.25:
            vs = [Variant('V%d' % j, rng.choice(['unit', 'tuple', 'named']), [], [Attr(rng.choice(mshorts), 'W%d' % j)] if rng.random() < 0.5 else
                          ([Attr('ghost', '{ E::V0 }', o2o=False)] if rng.random() < 0.3 else [])) for j in range(rng.randrange(1, 4))]
            for v in vs:
                if v.shape != 'unit':
                    v.fields = [Field('x' if v.shape == 'named' else None, 'i32', [Attr(rng.choice(mshorts), 'k')] if rng.random() < 0.5 else [])]
            eattrs = [a for a in attrs if 'existing' not in a.name and not getattr(a, 'hint', '')] or [trait_attr('map', 'A')]
            eattrs = [a for a in eattrs if a.name != 'ghosts']
            if rng.random() < 0.4:
                eattrs.append(Attr('ghosts', rng.choice(['Gx: { E::V0 }', 'Gy(a): { mk(a) }'])))
            out.append(Item('enum', 'E', 'named', '', eattrs, vs, {'gen': 'shortcut_enum'}))
        else:
            out.append(Item('struct', 'S', 'named' if named else 'tuple', '', attrs, fields, {'gen': 'shortcut_struct'}))
    return out


import re as _re


def _expand_nested(args):
    """inside #[parent(..)] arguments: write every nested [shortcut(args)] out as its basics"""
    def rep(m):
        nm, inner = m.group(1), m.group(2)
        if nm in INFALLIBLE and len(basics_of(nm)) > 1:
            return ' '.join('[%s(%s)]' % (b, inner) for b in basics_of(nm))
        return m.group(0)
    return _re.sub(r'\[(\w+)\(([^\[\]()]*(?:\([^()]*\))?[^\[\]()]*)\)\]', rep, args)


_old_expand_one = _expand_one


def _expand_one(a, ghost_pairs):   # noqa: F811  (extends the earlier definition with the nested-parent level)
    if a.name == 'parent' and a.args and '[' in a.args:
        return [a.clone(args=_expand_nested(a.args))]
    return _old_expand_one(a, ghost_pairs)


# ---------------------------------------------------------------------------------------------
# C03: flattening - child tries (incl. prefix-named siblings), parameterised and bare parents
# ---------------------------------------------------------------------------------------------
NODE_NAMES = ['p', 'pq', 'p2', 'base', 'base_entity', 'q', 'r', 'n', 'ort', 'größe', 'öl']      # non-ASCII identifiers: byte offsets are not char offsets


# type forms of the intermediate structs.  `G<i32> { .. }` is a type but not an expression (the literal needs the turbofish), so the
# checks that read the generated bodies use forms that are both; C18 adds the plain generic forms (it compares the two back-ends only)
TREE_TYPE_FORMS = ['T%d', 'T%d', 'T%d', 'x::T%d', 'G%d::<u8>']
TREE_TYPE_FORMS_GENERIC = TREE_TYPE_FORMS + ['G%d<i32>', 'm::G%d<u8, i8>', "L%d<'a>"]


class Tree:
    """a nesting tree on the counterpart side: node name (ident or index), type, named?, children, leaves"""
    def __init__(self, name, ty, named=True):
        self.name, self.ty, self.named = name, ty, named
        self.kids, self.leaves = [], []          # leaves: (flat field name / index, counterpart field name or None)


def rand_tree(rng, depth, counter, named_levels=True):
    names = NODE_NAMES[:]
    rng.shuffle(names)
    nodes = []
    for nm in names[:rng.choice([1, 1, 2, 2, 3])]:
        counter[0] += 1
        t = Tree(nm, rng.choice(TREE_TYPE_FORMS) % counter[0])
        if depth > 1 and rng.random() < 0.5:
            t.kids = rand_tree(rng, depth - 1, counter)
        nodes.append(t)
    return nodes


def _c03_hinted_case(rng, i, kinds):
    """nesting trees whose containers have their own shape (`p: T as ()`, `p.0: U as {}`): named and tuple containers inside
    each other, members addressed by name or position accordingly, and containers filled by #[ghosts(path@member: ..)] only"""
    named = rng.random() < 0.6
    root_named = named or rng.random() < 0.5
    root_hint = '' if root_named == named else (' as {}' if root_named else ' as ()')
    counter = [0]
    entries = []       # (path string, type, hint)
    fields = []        # Field
    ghosts = []
    fidx = [0]
    flat = []

    def container(path, shape_named, depth):
        """emit the members of the container at `path` (a list of member strings); returns nothing"""
        pos = 0
        nleaves = rng.choice([0, 1, 1, 2]) if path else rng.choice([1, 2])
        for _ in range(nleaves):
            j = fidx[0]
            fidx[0] += 1
            fa = []
            if path:
                fa.append(Attr('child', '.'.join(path)))
            if shape_named:
                if not named or rng.random() < 0.4:
                    fa.append(Attr('map', 'm%d' % j))
            elif rng.random() < 0.3:
                fa.append(Attr('map', '~.clone()'))       # positional place, expression only: the place is the position inside the container
            else:
                fa.append(Attr('map', str(pos)))
            pos += 1
            rng.shuffle(fa)
            fields.append(Field(('f%d' % j) if named else None, 'i32', fa))
            flat.append((('f%d' % j) if named else str(j), '.'.join(path) if path else None, None))
        nkids = 0 if depth >= 2 else rng.choice([0, 1, 1, 2] if path else [1, 1, 2])
        kid_names = rng.sample(NODE_NAMES, nkids)
        for kn in kid_names:
            counter[0] += 1
            name = kn if shape_named else str(pos)
            pos += 1
            kid_named = rng.random() < 0.65
            if kid_named == named:
                hint = rng.choice(['', ' as {}' if kid_named else ' as ()'])
            else:
                hint = ' as {}' if kid_named else ' as ()'
            kp = path + [name]
            entries.append(('.'.join(kp), 'T%d' % counter[0], hint))
            before = len(fields)
            container(kp, kid_named, depth + 1)
            if len(fields) == before or rng.random() < 0.25:
                # a container with no member of its own (or an extra entry): filled through #[ghosts]
                for g in range(rng.choice([1, 2])):
                    gname = ('g%d' % g) if kid_named else str(50 + g)
                    ghosts.append('%s@%s: { gv%d() }' % ('.'.join(kp), gname, g))

    container([], root_named, 0)
    if named and rng.random() < 0.35:
        # the fields of a named flat struct in any order: the members of one container then interleave with the others, and the
        # position of a positional member is its rank among the members of ITS container
        order = list(range(len(fields)))
        rng.shuffle(order)
        fields[:] = [fields[i] for i in order]
        flat[:] = [flat[i] for i in order]
    tnames = rng.sample(kinds, rng.choice([1, 2]))
    attrs = [trait_attr(tn, 'A', root_hint) for tn in tnames]
    attrs.append(Attr('child_parents', ', '.join('%s: %s%s' % e for e in entries)))
    if ghosts:
        attrs.append(Attr('ghosts', ', '.join(ghosts)))
    rng.shuffle(attrs)
    return Item('struct', 'S', 'named' if named else 'tuple', '', attrs, fields, {'gen': 'c03_hinted', 'flat': flat})


def c03_hinted_cases(rng, n):
    kinds = BASIC + [try_name(b) for b in BASIC]
    return [_c03_hinted_case(rng, i, kinds) for i in range(n)]


def c03_cases(rng, n):
    """flat structs over random child tries, fields in a random order (all interleavings reachable);
    parameterised / bare parents; struct-level ghosts addressed by child path"""
    out = []
    kinds = BASIC + [try_name(b) for b in BASIC]
    for i in range(n):
        r = rng.random()
        if r < 0.55:
            out.append(_c03_child_case(rng, i, kinds))
        elif r < 0.7:
            out.append(_c03_hinted_case(rng, i, kinds))
        elif r < 0.9:
            out.append(_c03_parent_case(rng, i, kinds))
        else:
            out.append(_c03_bare_parent_case(rng, i, kinds))
    return out


def _walk(nodes, prefix=()):
    for t in nodes:
        path = prefix + (t.name,)
        yield path, t
        for x in _walk(t.kids, path):
            yield x


def _c03_child_case(rng, i, kinds):
    counter = [0]
    nodes = rand_tree(rng, rng.choice([1, 1, 2, 3]), counter)
    named = rng.random() < 0.75
    flat = []     # (field name, path tuple or None, rename or None)
    k = 0
    for path, t in _walk(nodes):
        for _ in range(rng.choice([1, 1, 2, 3]) if not t.kids else rng.choice([0, 1, 2])):
            flat.append(('f%d' % k, path, ('m%d' % k) if (rng.random() < 0.3 or not named) else None))
            k += 1
    for _ in range(rng.choice([0, 1, 2])):
        flat.append(('f%d' % k, None, ('m%d' % k) if not named and rng.random() < 0.9 else None))
        k += 1
    rng.shuffle(flat)
    cpd = ', '.join('%s: %s' % ('.'.join(p), t.ty) for p, t in _walk(nodes))
    tnames = rng.sample(kinds, rng.choice([1, 2, 3]))
    # twin mode: a second counterpart B whose flattening goes through another path (dz); the instructions of A and B sit side by side
    # on the same members, default and dedicated, in either order - the impls for A must follow A's tree whatever is written for B
    twin = rng.random() < 0.3
    attrs = [trait_attr(tn, 'A', ' as {}' if not named else '') for tn in tnames]
    if twin:
        attrs += [trait_attr(tn, 'B', ' as {}' if not named else '') for tn in tnames]
        a_ded = rng.random() < 0.5
        # validation checks a default #[child(p)] against every counterpart, shadowed or not: both entries list both path sets
        # (with different types, so that taking the wrong entry shows)
        cpd_b = ', '.join('%s: %s' % ('.'.join(p), t.ty.replace('T', 'U')) for p, t in _walk(nodes))
        b_ded = (not a_ded) or rng.random() < 0.5          # at most one of the two is the default one
        attrs += [Attr('child_parents', cpd + ', dz: DzA', ded='A' if a_ded else None), Attr('child_parents', 'dz: Dz, ' + cpd_b, ded='B' if b_ded else None)]
    else:
        attrs += [Attr('child_parents', cpd)]
    if rng.random() < 0.25:
        p, t = rng.choice(list(_walk(nodes)))
        attrs.append(Attr('ghosts', '%s@gz: { 7 }' % '.'.join(p), ded='A' if twin else None))
    if rng.random() < 0.15:
        attrs[0] = trait_attr(tnames[0], 'A', ' as {}' if not named else '', 'Er', '..Default::default()')
    rng.shuffle(attrs)
    fields = []
    # a quarter of the cases spell the paths through a repeat(child) run: the opening field's #[child] is inherited by the fields that
    # follow; a field of another node keeps its own #[child] (own instructions take precedence), a plain field opts out with skip_repeat
    rep_path = None
    use_repeat = (not twin) and rng.random() < 0.25 and any(path is not None for _, path, _ in flat)
    for (fname, path, ren) in flat:
        fa = []
        marks = []
        if use_repeat:
            if rep_path is None and path is not None:
                rep_path = path
                marks.append(Attr('repeat', 'child'))
                fa.append(Attr('child', '.'.join(path)))
            elif rep_path is not None and path is None:
                marks.append(Attr('skip_repeat'))
            elif rep_path is not None and (path != rep_path or rng.random() < 0.2):
                fa.append(Attr('child', '.'.join(path)))
        elif path is not None and twin:
            v = rng.random()
            if v < 0.4:
                fa += [Attr('child', '.'.join(path), ded='A'), Attr('child', 'dz')]
            elif v < 0.8:
                fa += [Attr('child', '.'.join(path)), Attr('child', 'dz', ded='B')]
            else:
                fa.append(Attr('child', '.'.join(path), ded='A'))
        elif path is not None:
            fa.append(Attr('child', '.'.join(path)))
        elif twin and rng.random() < 0.4:
            fa.append(Attr('child', 'dz', ded='B'))
        if ren:
            fa.append(Attr('map', ren))
        rng.shuffle(fa)
        fields.append(Field(fname if named else None, 'i32', marks + fa))
    it = Item('struct', 'S', 'named' if named else 'tuple', '', attrs, fields,
              {'gen': 'c03_child', 'repeat': use_repeat, 'twin': twin, 'tree': [('.'.join(p), t.ty) for p, t in _walk(nodes)],
               'flat': [(fname if named else str(j), '.'.join(path) if path else None, ren) for j, (fname, path, ren) in enumerate(flat)]})
    return it


PARENT_FORMS = ['x, y', 'x, [map(yy)] y', '[parent(u, v)] inner: Inner, w', '[parent([parent(vendor, year)] core: Core)] base: Base, id',
                '[parent(u)] inner, w', '[parent([parent(vendor)] core: Core)] base, id', 'x, [parent(y)] 0: T', '[map(a0)] 0, [map(a1)] 1',
                'x, [parent(u, [parent(z)] deep: Deep)] inner: Inner',
                # several nested groups side by side at one level (each keeps its own sub-path), also below a nested group
                '[parent(load)] front: Axle, seats, [parent(psi)] rear: Tyre',
                '[parent(a)] u: U, [parent(b)] v: V, [parent(cc)] w: W',
                '[parent([parent(a)] u: U, [parent(b, [map(dd)] d)] v: V)] w: W, tail',
                'head, [parent(p1)] one: One, [parent([parent(q)] in2: In2)] two: Two']


def parse_parent_form(text):
    """`[instr(args)]* member [: Type]` items separated by top-level commas -> list of dicts {this, ty, map, kids}"""
    import re as _r
    items, depth, cur = [], 0, ''
    for ch in text:
        if ch in '([':
            depth += 1
        elif ch in ')]':
            depth -= 1
        if ch == ',' and depth == 0:
            items.append(cur.strip())
            cur = ''
        else:
            cur += ch
    if cur.strip():
        items.append(cur.strip())
    out = []
    for itx in items:
        d = {'this': None, 'ty': None, 'map': None, 'kids': None}
        rest = itx
        while rest.startswith('['):
            # matching bracket
            dep = 0
            for j, ch in enumerate(rest):
                if ch == '[':
                    dep += 1
                elif ch == ']':
                    dep -= 1
                    if dep == 0:
                        break
            instr = rest[1:j].strip()
            rest = rest[j + 1:].strip()
            m = _r.match(r'(\w+)\((.*)\)$', instr, flags=_r.S)
            if m and m.group(1) == 'parent':
                d['kids'] = parse_parent_form(m.group(2))
            elif m and m.group(1) == 'map':
                d['map'] = m.group(2).strip()
        if ':' in rest:
            a, b = rest.split(':', 1)
            d['this'], d['ty'] = a.strip(), b.strip()
        else:
            d['this'] = rest.strip()
        out.append(d)
    return out


def _c03_parent_case(rng, i, kinds):
    import re as _r
    named = rng.random() < 0.8
    tnames = rng.sample(kinds, rng.choice([1, 2]))
    attrs = [trait_attr(tn, 'A', ' as {}' if not named and rng.random() < 0.5 else '') for tn in tnames]
    forms = PARENT_FORMS

    def renamed(form, suffix):
        return _r.sub(r'\b([a-z][a-z0-9_]*)\b', lambda m: m.group(1) if m.group(1) in ('parent', 'map') else m.group(1) + suffix, form)

    # twin mode: a second counterpart B flattens the same parent field differently; default and dedicated #[parent(..)] side by side
    twin = rng.random() < 0.3
    form_a = rng.choice(forms)
    pattrs = [Attr('parent', form_a)]
    if twin:
        attrs += [trait_attr(tn, 'B', attrs[0].hint and ' as {}' or '') for tn in tnames]
        form_b = renamed(rng.choice(forms), 'b')
        if rng.random() < 0.5:
            pattrs = [Attr('parent', form_a, ded='A'), Attr('parent', form_b)]
        else:
            pattrs = [Attr('parent', form_a), Attr('parent', form_b, ded='B')]
        if rng.random() < 0.6:
            pattrs.reverse()
    fields = [Field('k' if named else None, 'i32', []), Field('par' if named else None, 'P', pattrs)]
    form2 = None
    if rng.random() < 0.4:
        form2 = renamed(rng.choice(forms), '2')
        fields.append(Field('par2' if named else None, 'P2', [Attr('parent', form2)]))
    if rng.random() < 0.5:
        fields.append(Field('zf' if named else None, 'i16', [Attr('map', 'zz')] if rng.random() < 0.5 else []))
    rng.shuffle(fields)
    return Item('struct', 'S', 'named' if named else 'tuple', '', attrs, fields,
                {'gen': 'c03_parent', 'twin': twin, 'forms': {'par': form_a, 'par2': form2}})


def _c03_bare_parent_case(rng, i, kinds):
    named = rng.random() < 0.8
    tnames = rng.sample(kinds, rng.choice([1, 2, 3]))
    params = rng.choice(['', '', 'vars(k: { 1 })', 'return mk(@)', '..Default::default()'])
    attrs = [trait_attr(tn, 'A', '', 'Er', params) for tn in tnames]
    fields = [Field('a' if named else None, 'i32', [Attr('map', 'x')] if rng.random() < 0.4 else []),
              Field('par' if named else None, 'P', [Attr('parent')])]
    if rng.random() < 0.3:
        fields.append(Field('par2' if named else None, 'P2', [Attr('parent')]))
    if rng.random() < 0.3:
        fields.append(Field('g' if named else None, 'u8', [Attr('ghost', '{ 3 }')]))
    rng.shuffle(fields)
    return Item('struct', 'S', 'named' if named else 'tuple', '', attrs, fields, {'gen': 'c03_bare_parent'})


# ---------------------------------------------------------------------------------------------
# C10: random expression token trees in every accepting position, with the expected substitution
# ---------------------------------------------------------------------------------------------
C10_IDENTS = ['x', 'y', 'foo', 'Bar', 'clone', 'self_', 'value_', 'u8', 'r#type']
C10_PUNCT = ['+', '-', '*', '/', '.', ',', ';', ':', '!', '?', '&', '|', '=', '<', '>', '#', '$', '%', '^']
C10_LITS = ['1', '2.5', '1u8', '"a~@"', "'~'", "'@'", '"~"', 'b"@"', '0x1f']
C10_OPS = ['::', '->', '=>', '..', '..=', '+=', '&&', '||', '<<', '==', '!=']


def rand_tt(rng, depth=0, allow_tilde=True, n=None):
    """a random token tree as a list of atoms: ('i', s) ('p', c) ('l', s) ('lt', name) ('g', delim, [..]) ('@',) ('~',)"""
    out = []
    n = rng.randrange(1, 7) if n is None else n
    for _ in range(n):
        r = rng.random()
        if r < 0.16:
            out.append(('@',))
        elif r < 0.34 and allow_tilde:
            out.append(('~',))
        elif r < 0.5:
            out.append(('i', rng.choice(C10_IDENTS)))
        elif r < 0.6:
            out.append(('l', rng.choice(C10_LITS)))
        elif r < 0.7:
            out.append(('p', rng.choice(C10_PUNCT)))
        elif r < 0.76:
            out.append(('o', rng.choice(C10_OPS)))
        elif r < 0.8:
            out.append(('lt', rng.choice(['a', 'static'])))
        elif depth < 4:
            out.append(('g', rng.choice(['()', '[]', '{}']), rand_tt(rng, depth + 1, allow_tilde)))
        else:
            out.append(('i', 'deep'))
    return out


def tt_text(tt):
    parts = []
    for a in tt:
        if a[0] == '@':
            parts.append('@')
        elif a[0] == '~':
            parts.append('~')
        elif a[0] in ('i', 'l', 'p', 'o'):
            parts.append(a[1])
        elif a[0] == 'lt':
            parts.append("'" + a[1])
        else:
            parts.append(a[1][0] + ' ' + tt_text(a[2]) + ' ' + a[1][1])
    return ' '.join(parts)


def tt_flat(tt, at, tilde):
    """expected flattened token texts after substitution (the convention of vlib.flatten)"""
    out = []
    for a in tt:
        if a[0] == '@':
            out += at
        elif a[0] == '~':
            out += tilde
        elif a[0] in ('i', 'l'):
            out.append(a[1])
        elif a[0] in ('p', 'o'):
            out += list(a[1])
        elif a[0] == 'lt':
            out += ["'", a[1]]
        else:
            out += [a[1][0]] + tt_flat(a[2], at, tilde) + [a[1][1]]
    return out


def c10_cases(rng, n):
    out = []
    sites = ['field_named', 'field_renamed', 'field_child', 'field_tuple', 'vars', 'update', 'return', 'ghost', 'ghosts',
             'vfield_named', 'vfield_tuple', 'variant_from', 'default_case', 'nested_parent']
    for i in range(n):
        site = sites[i % len(sites)]
        tilde_ok = site in ('field_named', 'field_renamed', 'field_child', 'field_tuple', 'vfield_named', 'vfield_tuple', 'variant_from', 'nested_parent')
        # `~` where no member exists (type-level parameters, #[ghosts] entries, the default of a ghost field): the README allows `~` at member
        # level only, the statement does not say what it stands for there - generated for the correspondence only (no expectation)
        memberless_tilde = (not tilde_ok) and site != 'default_case' and rng.random() < 0.3
        tt = rand_tt(rng, 0, tilde_ok or memberless_tilde)
        if site in ('vars', 'ghost', 'ghosts'):
            body = '{ %s }' % tt_text(tt)
        else:
            # a bare (unbraced) expression must not start with a brace group that is followed by more tokens; brace it half of the time
            body = '{ %s }' % tt_text(tt) if rng.random() < 0.5 or (tt and tt[0][0] == 'g' and tt[0][1] == '{}') \
                or (site == 'field_named' and tt[0][0] not in ('@', '~')) else tt_text(tt)
        tr = [trait_attr('map', 'A'), trait_attr('into_existing', 'A')]
        V, S = ['value'], ['self']
        exp = {'from': None, 'into': None}
        if site == 'field_named':
            it = Item('struct', 'S', 'named', '', tr, [Field('a', 'i32', [Attr('map', body)]), Field('b', 'i16')])
            exp = {'from': tt_flat(tt, V, ['value', '.', 'a']), 'into': tt_flat(tt, S, ['self', '.', 'a'])}
        elif site == 'field_renamed':
            it = Item('struct', 'S', 'named', '', tr, [Field('a', 'i32', [Attr('map', 'm, ' + body)]), Field('b', 'i16')])
            exp = {'from': tt_flat(tt, V, ['value', '.', 'm']), 'into': tt_flat(tt, S, ['self', '.', 'a'])}
        elif site == 'field_child':
            it = Item('struct', 'S', 'named', '', tr + [Attr('child_parents', 'p: P, p.q: Q')],
                      [Field('a', 'i32', [Attr('child', 'p.q'), Attr('map', 'm, ' + body)]), Field('b', 'i16')])
            exp = {'from': tt_flat(tt, V, ['value', '.', 'p', '.', 'q', '.', 'm']), 'into': tt_flat(tt, S, ['self', '.', 'a'])}
        elif site == 'field_tuple':
            it = Item('struct', 'S', 'tuple', '', tr, [Field(None, 'i32', [Attr('map', '1, ' + body)]), Field(None, 'i16', [Attr('map', '0')])])
            exp = {'from': tt_flat(tt, V, ['value', '.', '1']), 'into': tt_flat(tt, S, ['self', '.', '0'])}
        elif site == 'vars':
            tr2 = [trait_attr('map', 'A', '', 'Er', 'vars(k: %s)' % body), trait_attr('into_existing', 'A', '', 'Er', 'vars(k: %s)' % body)]
            it = Item('struct', 'S', 'named', '', tr2, [Field('a', 'i32'), Field('b', 'i16')])
            exp = {'from': tt_flat(tt, V, []), 'into': tt_flat(tt, S, [])}
        elif site == 'update':
            tr2 = [trait_attr('map', 'A', '', 'Er', '..' + body)]
            it = Item('struct', 'S', 'named', '', tr2, [Field('a', 'i32'), Field('b', 'i16')])
            exp = {'from': tt_flat(tt, V, []), 'into': tt_flat(tt, S, [])}
        elif site == 'return':
            tr2 = [trait_attr('map', 'A', '', 'Er', 'return ' + body), trait_attr('into_existing', 'A', '', 'Er', 'return ' + body)]
            it = Item('struct', 'S', 'named', '', tr2, [Field('a', 'i32'), Field('b', 'i16')])
            exp = {'from': tt_flat(tt, V, []), 'into': tt_flat(tt, S, [])}
        elif site == 'ghost':
            it = Item('struct', 'S', 'named', '', [trait_attr('from', 'A')], [Field('a', 'i32'), Field('g', 'i16', [Attr('ghost', body)])])
            exp = {'from': tt_flat(tt, V, []), 'into': None}
        elif site == 'ghosts':
            it = Item('struct', 'S', 'named', '', [trait_attr('into', 'A'), trait_attr('into_existing', 'A'), Attr('ghosts', 'gx: ' + body)],
                      [Field('a', 'i32'), Field('b', 'i16')])
            exp = {'from': None, 'into': tt_flat(tt, S, [])}
        elif site == 'vfield_named':
            it = Item('enum', 'E', 'named', '', [trait_attr('map', 'A')],
                      [Variant('V', 'named', [Field('x', 'i32', [Attr('map', 'm, ' + body)]), Field('y', 'i16')]), Variant('U')])
            exp = {'from': tt_flat(tt, V, ['m']), 'into': tt_flat(tt, S, ['x'])}
        elif site == 'vfield_tuple':
            it = Item('enum', 'E', 'named', '', [trait_attr('map', 'A')],
                      [Variant('V', 'tuple', [Field(None, 'i32', [Attr('map', '1, ' + body)]), Field(None, 'i16', [Attr('map', '0')])]), Variant('U')])
            exp = {'from': tt_flat(tt, V, ['f1']), 'into': tt_flat(tt, S, ['f0'])}
        elif site == 'variant_from':
            it = Item('enum', 'E', 'named', '', [trait_attr('from', 'A')], [Variant('V', 'unit', [], [Attr('from', 'W, ' + body)]), Variant('U')])
            exp = {'from': tt_flat(tt, V, ['E', ':', ':', 'V']), 'into': None}
        elif site == 'default_case':
            tr2 = [trait_attr('from', 'i32', '', 'Er', '_ => ' + body)]
            it = Item('enum', 'E', 'named', '', tr2, [Variant('V', 'unit', [], [Attr('literal', '1')]), Variant('U', 'unit', [], [Attr('literal', '2')])])
            exp = {'from': tt_flat(tt, V, []), 'into': None}
        else:   # nested_parent
            it = Item('struct', 'S', 'named', '', [trait_attr('into', 'A'), trait_attr('into_existing', 'A')],
                      [Field('k', 'i32'), Field('par', 'P', [Attr('parent', '[into(m, %s)] y, z' % body)])])
            exp = {'from': None, 'into': tt_flat(tt, S, ['self', '.', 'par', '.', 'y'])}
        if memberless_tilde and '~' in tt_text(tt):
            exp = {'from': None, 'into': None}
        it.meta = {'gen': 'c10', 'site': site, 'expect': exp, 'expr': tt_text(tt)}
        out.append(it)
    return out


# ---------------------------------------------------------------------------------------------
# C05: every (ordered) combination of member-instruction forms on one member, under a type that
# requests all 12 flavours for two counterparts
# ---------------------------------------------------------------------------------------------
def c05_forms():
    forms = []
    for nm in MEMBER_MAP_NAMES:
        for ded in (None, 'A', 'B'):
            # with an expression only, with the counterpart's member only, with both: which instruction wins must not depend on what
            # the instructions carry (a winner without a member name must not borrow the name of a shadowed one)
            for style in ('expr', 'name', 'both'):
                forms.append((nm, ded, style))
    for nm in GHOSTS:
        for ded in (None, 'A', 'B'):
            forms.append((nm, ded))
    # as_type: its own applicable_to table (both from kinds; both into kinds and, directly, both into_existing kinds)
    for ded in (None, 'A', 'B'):
        forms.append(('as_type', ded))
    return forms


def c05_trait_attrs():
    out = []
    for cp in ('A', 'B'):
        out += [trait_attr('map', cp), trait_attr('into_existing', cp), trait_attr('try_map', cp, '', 'Er'), trait_attr('try_into_existing', cp, '', 'Er')]
    return out


def c05_attr(form, k, named=True):
    nm, ded = form[0], form[1]
    style = form[2] if len(form) > 2 and named else 'expr'
    if style == 'name':
        return Attr(nm, 'm%d' % k, ded=ded)
    if style == 'both':
        return Attr(nm, 'm%d, e%d(~)' % (k, k), ded=ded)
    if nm in GHOSTS:
        return Attr(nm, '{ g%d() }' % k, o2o=(nm != 'ghost'), ded=ded)
    if nm == 'as_type':
        return Attr(nm, 'Ty%d' % k, o2o=True, ded=ded)
    return Attr(nm, 'e%d(~)' % k, ded=ded)


INTO_SIDE_NAMES = [n for n in MEMBER_MAP_NAMES if all(not k.startswith('from') for k, _ in kinds_of(n))]


def c05_into_forms():
    """into-side instructions, with an expression or with nothing at all (`#[into]`, `#[into()]`, `#[into(A| )]`): an argument-less
    instruction is an instruction - `map this member as it is` - and shadows less specific ones like any other"""
    forms = []
    for nm in INTO_SIDE_NAMES:
        for ded in (None, 'A', 'B'):
            forms.append((nm, ded, False))
            forms.append((nm, ded, True))
    return forms


def c05_into_item(forms):
    fa = []
    for i, (nm, ded, empty) in enumerate(forms):
        if empty:
            fa.append(Attr(nm, '' if (ded or i % 2) else None, ded=ded))
        else:
            fa.append(Attr(nm, 'e%d(~)' % (i + 1), ded=ded))
    attrs = []
    for cp in ('A', 'B'):
        attrs += [trait_attr('into', cp), trait_attr('into_existing', cp), trait_attr('try_into', cp, '', 'Er'), trait_attr('try_into_existing', cp, '', 'Er')]
    fields = [Field('a', 'i32', fa), Field('b', 'i16', [])]
    return Item('struct', 'S', 'named', '', attrs, fields, {'gen': 'c05i', 'forms': forms, 'shape': 'into-side'}), fa


def c05_item(forms, shape='named'):
    named = shape == 'named'
    fa = [c05_attr(f, i + 1, named) for i, f in enumerate(forms)]
    fields = [Field('a' if named else None, 'i32', fa), Field('b' if named else None, 'i16', [])]
    return Item('struct', 'S', shape, '', c05_trait_attrs(), fields, {'gen': 'c05', 'forms': forms, 'shape': shape})


def c05_variant_item(forms):
    fa = [c05_attr(f, i + 1) for i, f in enumerate(forms)]
    attrs = []
    for cp in ('A', 'B'):
        attrs += [trait_attr('map', cp), trait_attr('try_map', cp, '', 'Er')]
    v = Variant('V', 'named', [Field('x', 'i32', fa), Field('y', 'i16')])
    return Item('enum', 'E', 'named', '', attrs, [v, Variant('U')], {'gen': 'c05v', 'forms': forms, 'shape': 'variant'})


NESTED_MAP_NAMES = ['owned_into', 'ref_into', 'into', 'from_owned', 'from_ref', 'from', 'map_owned', 'map_ref', 'map',
                    'owned_into_existing', 'ref_into_existing', 'into_existing']


def c05_pcf_item(names):
    """the same chain one level down: several `[instr(member, expr)]` on one member listed in a parameterised #[parent(..)]"""
    inner = ' '.join('[%s(m%d, e%d(~))]' % (nm, i + 1, i + 1) for i, nm in enumerate(names))
    fields = [Field('par', 'P', [Attr('parent', '%s x, y' % inner)]), Field('b', 'i16', [])]
    return Item('struct', 'S', 'named', '', c05_trait_attrs(), fields, {'gen': 'c05p', 'forms': list(names), 'shape': 'pcf'})


# ---------------------------------------------------------------------------------------------
# C06: two or three counterparts, every instruction kind in default / dedicated-to-each form
# ---------------------------------------------------------------------------------------------
def c06_cases(rng, n):
    out = []
    for i in range(n):
        # counterparts are identified by their full spelling: the pool holds twins that differ in the module path / the generic argument only
        cps = rng.sample(['A', 'B', 'C', 'x::D', 'G<u8>', 'y::D', 'x::A', 'G<u16>', 'x::G<u8>', 'K<2>', 'K<4>', 'K<-1>', "R<'a>", "R<'b>", 'G<u8, 2>', 'G<u8, 3>',
                          'car_v1', '_low', 'car_v1', 'b'], rng.choice([2, 2, 3]))
        cps = list(dict.fromkeys(cps))
        if len(cps) < 2:
            cps.append('B2')
        def ded():
            r = rng.random()
            return None if r < 0.35 else rng.choice(cps)
        if rng.random() < 0.7:
            named = rng.random() < 0.7
            kinds = BASIC + [try_name(b) for b in BASIC] + ['map', 'into', 'from', 'into_existing', 'try_map']
            attrs = []
            for cp in cps:
                taken = set()
                for nm in rng.sample(kinds, rng.choice([1, 2, 3])):
                    ks = set(kinds_of(nm))
                    if ks & taken:
                        continue
                    taken |= ks
                    attrs.append(trait_attr(nm, cp, '' if named else rng.choice(['', ' as {}']), 'Er', rand_params(rng, nm)))
            for _ in range(rng.choice([0, 1, 2])):
                attrs.append(Attr(rng.choice(['ghosts', 'ghosts_owned', 'ghosts_ref']), rng.choice(['gx: { 1 }', 'base@gz: { 2 }', 'gy: { @.t }']), ded=ded()))
            for _ in range(rng.choice([1, 1, 2, 3])):
                attrs.append(Attr('child_parents', rng.choice(['base: Base', 'base: BaseModel', 'base: Base as ()', 'base: Base, base.inner: Inner', 'p: P']), ded=ded()))
            for _ in range(rng.choice([0, 0, 1, 2])):
                attrs.append(Attr('where_clause', rng.choice(['T: Clone', 'T: Copy, U: Into<T>']), ded=ded()))
            rng.shuffle(attrs)
            fields = []
            for j in range(rng.randrange(1, 6)):
                fa = []
                for _ in range(rng.choice([0, 1, 1, 2, 3])):
                    r = rng.random()
                    m = ('n%d' % rng.randrange(4)) if named or rng.random() < 0.5 else str(rng.randrange(4))
                    if r < 0.4:
                        fa.append(Attr(rng.choice(MEMBER_MAP_NAMES), rng.choice([m, '%s, ~.c()' % m, '~ + %d' % j]), ded=ded()))
                    elif r < 0.55:
                        nm = rng.choice(GHOSTS)
                        g = Attr(nm, '{ %d }' % j, o2o=(nm != 'ghost'), ded=ded())
                        if g.ded is not None and _re.fullmatch(r'\w+', g.ded) and rng.random() < 0.4:
                            g.args, g.bare_ded = None, True          # `#[ghost(Type)]`: dedicated ghost without default, written without `|`
                        fa.append(g)
                    elif r < 0.8:
                        fa.append(Attr('child', rng.choice(['base', 'base.inner', 'p']), ded=ded()))
                    elif r < 0.9:
                        fa.append(Attr('parent', rng.choice([None, 'x, y', '[map(z)] x']) if False else rng.choice(['x, y', '[map(z)] x']), ded=ded()))
                    else:
                        fa.append(Attr('as_type', rng.choice(['i64', m + ', u8']), ded=ded()))
                fields.append(Field(('a%d' % j) if named else None, rng.choice(['i32', 'P']), fa))
            out.append(Item('struct', 'S', 'named' if named else 'tuple', rng.choice(['', '<T>', '<T, U>']), attrs, fields, {'gen': 'c06_struct'}))
        else:
            attrs = []
            for cp in cps:
                for nm in rng.sample(['map', 'from', 'into', 'owned_into', 'from_ref', 'try_map', 'try_from'], rng.choice([1, 2])):
                    if not any(set(kinds_of(nm)) & set(kinds_of(a.name)) and a.cp == cp for a in attrs):
                        attrs.append(trait_attr(nm, cp, '', 'Er', rand_params(rng, nm, enum=True)))
            for _ in range(rng.choice([0, 1, 2])):
                attrs.append(Attr(rng.choice(['ghosts', 'ghosts_owned']), rng.choice(['Gx: { E::V0 }', 'Gy(a): { mk(a) }']), ded=ded()))
            for _ in range(rng.choice([0, 0, 1])):
                attrs.append(Attr('where_clause', 'T: Clone', ded=ded()))
            rng.shuffle(attrs)
            vs = []
            for j in range(rng.randrange(1, 4)):
                va = []
                for _ in range(rng.choice([0, 1, 2, 3])):
                    r = rng.random()
                    if r < 0.35:
                        va.append(Attr(rng.choice(['map', 'from', 'into', 'owned_into']), rng.choice(['W%d' % j, 'W%d, { mk(~) }' % j]), ded=ded()))
                    elif r < 0.5:
                        va.append(Attr('type_hint', rng.choice(['as {}', 'as ()', 'as Unit']), ded=ded()))
                    elif r < 0.65:
                        va.append(Attr('literal', rng.choice(['1', '"x"']), ded=ded()))
                    elif r < 0.75:
                        va.append(Attr('pattern', rng.choice(['_', '3..=5']), ded=ded()))
                    elif r < 0.9:
                        va.append(Attr('ghost', rng.choice(['{ dflt() }', '']), ded=ded()))
                    else:
                        va.append(Attr('ghosts', 'gq: { 0 }', ded=ded()))
                sh = rng.choice(['unit', 'tuple', 'named'])
                fs = [] if sh == 'unit' else [Field('x%d' % q if sh == 'named' else None, 'i32',
                                                    [Attr(rng.choice(MEMBER_MAP_NAMES), rng.choice(['k', 'k, ~ + 1', '1']), ded=ded())] if rng.random() < 0.6 else [])
                                              for q in range(rng.randrange(1, 3))]
                vs.append(Variant('V%d' % j, sh, fs, va))
            out.append(Item('enum', 'E', 'named', rng.choice(['', '<T>']), attrs, vs, {'gen': 'c06_enum'}))
    return out


# ---------------------------------------------------------------------------------------------
# C14: repeat / skip_repeat / stop_repeat and their written-out forms
# ---------------------------------------------------------------------------------------------
REPEAT_CATS = ['map', 'child', 'parent', 'ghost', 'type_hint']


def attr_category(a):
    if a.name in MEMBER_MAP_NAMES:
        return 'map'
    if a.name in GHOSTS:
        return 'ghost'
    if a.name in ('child', 'parent', 'type_hint'):
        return a.name
    return None


class RMember:
    """one member of a repeat scenario: its own instructions and its repeat markers"""
    def __init__(self, own, repeat=None, permeate=False, skip=False, stop=False):
        self.own, self.repeat, self.permeate, self.skip, self.stop = own, repeat, permeate, skip, stop
        # repeat: None (no marker) | [] (all categories) | [cats]

    def marker_attrs(self, rng=None):
        out = []
        if self.stop:
            out.append(Attr('stop_repeat'))
        if self.repeat is not None:
            args = ', '.join(self.repeat)
            if self.permeate:
                args = 'permeate()' + (', ' + args if args else '')
            out.append(Attr('repeat', args if (args or self.permeate) else None))
        if self.skip:
            out.append(Attr('skip_repeat'))
        return out


def thread_members(members, active=None):
    """written-out instructions for a member sequence (the rule of the property statement).
    returns (list of instruction lists, active block at the end, ok?)"""
    out = []
    ok = True
    for m in members:
        if m.stop:
            active = None
        if m.repeat is not None:
            if active is not None:
                ok = False
            cats = m.repeat or REPEAT_CATS
            active = ([a for a in m.own if attr_category(a) in cats], m.permeate)
            out.append(list(m.own))
        elif active is not None and not m.skip:
            out.append(list(m.own) + [a.clone() for a in active[0]])
        else:
            out.append(list(m.own))
    return out, active, ok


def rand_rmember(rng, named, in_variant=False, is_variant=False, allow_permeate=False):
    own = []
    for _ in range(rng.choice([0, 1, 1, 2])):
        r = rng.random()
        m = ('n%d' % rng.randrange(5)) if (named or is_variant) else str(rng.randrange(5))
        if is_variant:
            if r < 0.5:
                own.append(Attr(rng.choice(['map', 'from', 'into', 'owned_into']), rng.choice(['W%d' % rng.randrange(4), '{ mk(~) }'])))
            elif r < 0.75:
                own.append(Attr('type_hint', rng.choice(['as {}', 'as ()'])))
            else:
                own.append(Attr('ghost', '{ dflt() }'))
        else:
            if r < 0.55:
                own.append(Attr(rng.choice(MEMBER_MAP_NAMES), rng.choice([m, '~ + 1', '%s, ~.c()' % m])))
            elif r < 0.7:
                nm = rng.choice(GHOSTS)
                own.append(Attr(nm, '{ 0 }', o2o=(nm != 'ghost')))
            elif r < 0.85 and not in_variant:
                own.append(Attr('child', rng.choice(['p', 'p.q'])))
            elif not in_variant:
                own.append(Attr('parent', rng.choice(['x, y', '[map(z)] x'])))
    r = rng.random()
    rep = None
    if r < 0.25:
        cats = [] if rng.random() < 0.5 else rng.sample(REPEAT_CATS, rng.choice([1, 2]))
        rep = cats
    return RMember(own, rep, permeate=(rep is not None and allow_permeate and rng.random() < 0.5),
                   skip=(rep is None and rng.random() < 0.15), stop=rng.random() < 0.15)


def c14_member_cases(rng, n):
    """returns list of (item with markers, written-out item)"""
    out = []
    for i in range(n):
        r = rng.random()
        tr = [trait_attr(rng.choice(['map', 'into', 'from', 'owned_into', 'from_owned', 'into_existing', 'try_map']), 'A', '', 'Er')]
        if rng.random() < 0.3:
            tr.append(trait_attr(rng.choice(['map', 'try_into']), 'B', '', 'Er'))
        if r < 0.55:
            named = rng.random() < 0.7
            ms = [rand_rmember(rng, named) for _ in range(rng.randrange(2, 7))]
            written, _, ok = thread_members(ms)
            if not ok:
                continue
            extra = [Attr('child_parents', 'p: P, p.q: Q')]
            def mk(instr_lists, with_markers):
                fields = []
                for j, (m, il) in enumerate(zip(ms, instr_lists)):
                    attrs = [a.clone() for a in il]
                    if with_markers:
                        mk_ = m.marker_attrs()
                        pos = rng.randrange(len(attrs) + 1) if attrs else 0
                        attrs = attrs[:pos] + mk_ + attrs[pos:]
                    fields.append(Field(('a%d' % j) if named else None, 'i32', attrs))
                return Item('struct', 'S', 'named' if named else 'tuple', '', [a.clone() for a in tr] + extra, fields, {'gen': 'c14_fields'})
            st = rng.getstate()
            a = mk([m.own for m in ms], True)
            out.append((a, mk(written, False)))
        elif r < 0.75:
            # variants
            ms = [rand_rmember(rng, True, is_variant=True) for _ in range(rng.randrange(2, 6))]
            written, _, ok = thread_members(ms)
            if not ok:
                continue
            etr = [a for a in tr if 'existing' not in a.name] or [trait_attr('map', 'A')]
            def mk(instr_lists, with_markers):
                vs = []
                for j, (m, il) in enumerate(zip(ms, instr_lists)):
                    attrs = [a.clone() for a in il] + (m.marker_attrs() if with_markers else [])
                    vs.append(Variant('V%d' % j, 'unit', [], attrs))
                return Item('enum', 'E', 'named', '', [a.clone() for a in etr], vs, {'gen': 'c14_variants'})
            out.append((mk([m.own for m in ms], True), mk(written, False)))
        else:
            # variant fields, with and without permeation
            shapes = [rng.choice(['tuple', 'named']) for _ in range(rng.randrange(2, 5))]
            allm = []
            active = None
            ok_all = True
            per_variant = []
            for sh in shapes:
                ms = [rand_rmember(rng, sh == 'named', in_variant=True, allow_permeate=True) for _ in range(rng.randrange(1, 4))]
                written, active, ok = thread_members(ms, active)
                ok_all = ok_all and ok
                if active is not None and not active[1]:
                    active = None
                per_variant.append((sh, ms, written))
            if not ok_all:
                continue
            etr = [a for a in tr if 'existing' not in a.name] or [trait_attr('map', 'A')]
            def mk(with_markers):
                vs = []
                for j, (sh, ms, written) in enumerate(per_variant):
                    fs = []
                    for q, m in enumerate(ms):
                        il = m.own if with_markers else written[q]
                        attrs = [a.clone() for a in il] + (m.marker_attrs() if with_markers else [])
                        fs.append(Field(('x%d' % q) if sh == 'named' else None, 'i32', attrs))
                    vs.append(Variant('V%d' % j, sh, fs, []))
                return Item('enum', 'E', 'named', '', [a.clone() for a in etr], vs, {'gen': 'c14_vfields'})
            out.append((mk(True), mk(False)))
    return out


class TSpec:
    """a trait instruction with structured parameters"""
    def __init__(self, name, cp, vars_=None, tail=None, repeat=None, skip=False, stop=False, attribute=None):
        self.name, self.cp, self.vars, self.tail, self.repeat, self.skip, self.stop, self.attribute = name, cp, vars_, tail, repeat, skip, stop, attribute
        # tail: None | ('update', expr) | ('quick_return', expr) | ('default_case', expr)

    def attr(self, markers=True):
        ps = []
        if markers and self.stop:
            ps.append('stop_repeat')
        if markers and self.skip:
            ps.append('skip_repeat')
        if markers and self.repeat is not None:
            ps.append('repeat(%s)' % ', '.join(self.repeat))
        if self.vars:
            ps.append('vars(%s)' % self.vars)
        if self.attribute:
            ps.append('attribute(%s)' % self.attribute)
        if self.tail:
            kw = {'update': '..', 'quick_return': 'return ', 'default_case': '_ => '}[self.tail[0]]
            ps.append(kw + self.tail[1])
        return trait_attr(self.name, self.cp, '', 'Er', ', '.join(ps))


TRAIT_CATS = ['vars', 'update', 'quick_return', 'default_case']


def thread_traits(specs):
    """written-out specs (rule of the property statement); returns (list, ok?)"""
    state = {}
    out = []
    ok = True
    for s in specs:
        if s.stop:
            state.pop(s.name, None)
        t = TSpec(s.name, s.cp, s.vars, s.tail, None, False, False, s.attribute)
        if s.repeat is not None:
            if s.name in state:
                ok = False
            cats = s.repeat or TRAIT_CATS
            state[s.name] = (s, cats)
        elif s.name in state and not s.skip:
            src, cats = state[s.name]
            # a later instruction that sets a selected parameter itself is a documented conflict ("... will be overriden"),
            # whether or not the repeating instruction carries that parameter: outside the equivalence
            if 'vars' in cats:
                if t.vars:
                    ok = False
                elif src.vars:
                    t.vars = src.vars
            if t.tail and t.tail[0] in cats:
                ok = False
            if src.tail and src.tail[0] in cats:
                if t.tail:
                    ok = False      # a second tail parameter cannot be written out
                t.tail = src.tail
        out.append(t)
    return out, ok


def c14_trait_cases(rng, n):
    out = []
    names_pool = [['owned_into', 'owned_try_into'], ['into', 'try_into', 'ref_try_into'], ['map', 'try_map'], ['from_owned', 'owned_try_into'],
                  ['map_owned', 'try_map_owned', 'try_from_owned'], ['from', 'into'], ['owned_into', 'ref_into', 'from_owned']]
    for i in range(n):
        enum = rng.random() < 0.3
        names = rng.choice(names_pool)
        cps = ['A', 'B', 'C', 'D', 'F']
        specs = []
        used = set()
        for j in range(rng.randrange(2, 6)):
            nm = rng.choice(names)
            cp = rng.choice(cps)
            ks = set((k, cp) for k in kinds_of(nm))
            if ks & used:
                continue
            used |= ks
            r = rng.random()
            rep = None
            if r < 0.35:
                rep = [] if rng.random() < 0.5 else rng.sample(TRAIT_CATS, rng.choice([1, 2]))
            tail = None
            q = rng.random()
            if q < 0.25:
                tail = ('update', rng.choice(['Default::default()', '{ base(@) }']))
            elif q < 0.4:
                tail = ('quick_return', rng.choice(['mk(@)', '{ @.conv() }']))
            elif q < 0.55 and enum:
                tail = ('default_case', rng.choice(['panic!()', 'dflt()']))
            specs.append(TSpec(nm, cp, vars_=('k%d: { %d }' % (j, j)) if rng.random() < 0.4 else None, tail=tail, repeat=rep,
                               skip=(rep is None and rng.random() < 0.2), stop=rng.random() < 0.2,
                               attribute=('inline' if rng.random() < 0.15 else None)))
        if len(specs) < 2:
            continue
        written, ok = thread_traits(specs)
        if not ok:
            continue
        def mk(sp, markers):
            attrs = [s.attr(markers) for s in sp]
            if enum:
                return Item('enum', 'E', 'named', '', attrs, [Variant('V', 'unit', [], [Attr('literal', '1')] if rng.random() < 0 else []), Variant('W', 'tuple', [Field(None, 'i32')])],
                            {'gen': 'c14_trait_enum'})
            return Item('struct', 'S', 'named', '', attrs, [Field('a', 'i32'), Field('b', 'i16', [Attr('map', 'bb')])], {'gen': 'c14_trait_struct'})
        out.append((mk(specs, True), mk(written, False)))
    return out


# ---------------------------------------------------------------------------------------------
# C15: valid bases and the documented misuse classes injected into them
# ---------------------------------------------------------------------------------------------
def c15_bases(rng, n):
    out = []
    for i in range(n):
        r = rng.random()
        cps = rng.sample(['A', 'B', 'x::C'], rng.choice([1, 1, 2]))
        if r < 0.45:
            names = ['map', 'into', 'from', 'owned_into', 'ref_into', 'from_owned', 'from_ref', 'into_existing', 'try_map', 'try_into', 'try_from', 'owned_try_into']
            attrs = [trait_attr(rng.choice(names), cp, '', 'Er') for cp in cps]
            fields = [Field('a%d' % j, 'i32', [Attr('map', 'n%d' % j)] if rng.random() < 0.4 else []) for j in range(rng.randrange(1, 5))]
            out.append(Item('struct', 'S', 'named', '', attrs, fields, {'gen': 'c15_base', 'kind': 'struct_named'}))
        elif r < 0.7:
            names = ['map', 'into', 'from', 'owned_into', 'from_owned', 'into_existing', 'try_map']
            attrs = [trait_attr(rng.choice(names), cp, '', 'Er') for cp in cps]
            fields = [Field(None, 'i32', []) for j in range(rng.randrange(1, 4))]
            out.append(Item('struct', 'S', 'tuple', '', attrs, fields, {'gen': 'c15_base', 'kind': 'struct_tuple'}))
        else:
            names = ['map', 'into', 'from', 'owned_into', 'from_owned', 'try_map', 'try_from']
            attrs = [trait_attr(rng.choice(names), cp, '', 'Er') for cp in cps]
            vs = []
            for j in range(rng.randrange(1, 4)):
                sh = rng.choice(['unit', 'tuple', 'named'])
                fs = [] if sh == 'unit' else [Field('x%d' % q if sh == 'named' else None, 'i32') for q in range(rng.randrange(1, 3))]
                vs.append(Variant('V%d' % j, sh, fs, [Attr('map', 'W%d' % j)] if rng.random() < 0.3 else []))
            out.append(Item('enum', 'E', 'named', '', attrs, vs, {'gen': 'c15_base', 'kind': 'enum'}))
    return out


TYPE_LEVEL_FOREIGN = ['parent', 'parent(x, y)', 'child(a.b)', 'ghost', 'ghost({ 1 })', 'ghost_ref', 'ghost_owned({ 2 })', 'as_type(i64)', 'literal(1)', 'pattern(_)',
                      'repeat', 'repeat(map)', 'skip_repeat', 'stop_repeat', 'type_hint(as {})']
MEMBER_LEVEL_FOREIGN = ['children(a: A)', 'child_parents(a: A)', 'where_clause(T: Clone)', 'allow_unknown']


def c15_allow_unknown(base, rng):
    """the documented switch: #[o2o(allow_unknown)] somewhere in the type's #[o2o(..)] lists (alone or grouped, first / middle / last list,
    further #[o2o(..)] lists after it that do not repeat it), then attributes of other crates whose names collide with instructions of
    the other level - after the switch on the type, anywhere on the members.  Such an input breaks no rule: it must be accepted and
    expand exactly like the base.  Returns (item with the switch only, item with switch + foreign attributes)."""
    it = base.clone()
    tl = [a for a in it.attrs if isinstance(a, Attr)]
    if not tl:
        return None
    lists = []
    k = rng.randrange(len(tl) + 1)          # position of the switch among the type-level instructions
    for i, a in enumerate(tl):
        if i == k:
            lists.append(None)
        lists.append(a)
    if k == len(tl):
        lists.append(None)
    out = []
    seen = False
    i = 0
    while i < len(lists):
        a = lists[i]
        if a is None:
            r = rng.random()
            au = Attr('allow_unknown', None, o2o=True)
            if r < 0.35 and i + 1 < len(lists):
                out.append(Group([au, lists[i + 1]]) if rng.random() < 0.5 else Group([lists[i + 1], au]))
                i += 1
            elif r < 0.5 and out and isinstance(out[-1], Attr):
                out[-1] = Group([out[-1], au])
            else:
                out.append(au)
            seen = True
        else:
            # after the switch: further #[o2o(..)] lists that do not repeat it
            out.append(a.clone(o2o=True) if seen and rng.random() < 0.7 else a)
        i += 1
    it.attrs = out
    plain = it.clone()
    n_type = rng.choice([0, 1, 1, 2])
    for _ in range(n_type):
        f = rng.choice(TYPE_LEVEL_FOREIGN)
        nm, _, rest = f.partition('(')
        it.attrs.append(Attr(nm, rest[:-1] if rest else None))
    members = list(it.members)
    for m in list(members):
        if isinstance(m, Variant):
            members += m.fields
    n_mem = rng.choice([0, 1, 1, 2]) if n_type else rng.choice([1, 1, 2])
    for _ in range(n_mem):
        if not members:
            break
        m = rng.choice(members)
        f = rng.choice(MEMBER_LEVEL_FOREIGN)
        nm, _, rest = f.partition('(')
        m.attrs.insert(rng.randrange(len(m.attrs) + 1), Attr(nm, rest[:-1] if rest else None))
    it.meta = dict(base.meta, gen='c15_allow_unknown')
    plain.meta = dict(base.meta, gen='c15_allow_unknown_plain')
    return plain, it


def _trait_attrs(it):
    return [a for a in it.attrs if isinstance(a, Attr) and a.name in TRAIT_NAMES and hasattr(a, 'cp')]


def _members(it):
    """every member-level attr list with a tag: ('field'|'variant'|'vfield', list)"""
    for m in it.members:
        if isinstance(m, Variant):
            yield 'variant', m
            for f in m.fields:
                yield 'vfield', f
        else:
            yield 'field', m


def _has_kind(it, pred):
    return [a for a in _trait_attrs(it) if any(pred(k) for k, _ in kinds_of(a.name))]


FROMK = lambda k: k.startswith('from')
INTOK = lambda k: k in ('owned_into', 'ref_into')
NONFROM = lambda k: not k.startswith('from')


def c15_injectors():
    """each: f(item, rng) -> (item', regex, class) or None when not applicable; item is a fresh clone"""
    inj = []

    def add(cls):
        def deco(f):
            inj.append((cls, f.__name__, f))
            return f
        return deco

    @add(1)
    def no_trait_instruction(it, rng):
        it.attrs = [a for a in it.attrs if a not in _trait_attrs(it)]
        return it, r'At least one trait instruction is expected\.'

    @add(2)
    def duplicate_instruction(it, rng):
        a = rng.choice(_trait_attrs(it))
        it.attrs.insert(rng.randrange(len(it.attrs) + 1), trait_attr(a.name, a.cp, (' ' + a.hint) if a.hint else '', a.err or 'Er'))
        return it, r'Ident here must be unique\.'

    @add(2)
    def overlapping_duplicate_instruction(it, rng):
        """same counterpart, same fallibility, a different spelling whose conversion kinds overlap (map + from, into + owned_into)"""
        a = rng.choice(_trait_attrs(it))
        ka = set(kinds_of(a.name))
        names = [n for n in TRAIT_NAMES if n != a.name and is_fallible(n) == is_fallible(a.name)
                 and set(kinds_of(n)) & ka and set(kinds_of(n)) != ka and not (it.kind == 'enum' and 'existing' in n)]
        if not names:
            return None
        it.attrs.insert(rng.randrange(len(it.attrs) + 1), trait_attr(rng.choice(names), a.cp, (' ' + a.hint) if a.hint else '', a.err or 'Er'))
        return it, r'Ident here must be unique\.'

    @add(3)
    def missing_error_type(it, rng):
        fs = [a for a in _trait_attrs(it) if is_fallible(a.name)]
        if not fs:
            a = rng.choice(_trait_attrs(it))
            if try_name(a.name) not in TRAIT_NAMES:
                return None
            a.name = try_name(a.name)
        else:
            a = rng.choice(fs)
        a.args = a.cp + a.hint
        a.err = None
        return it, r'Error type should be specified for fallible instruction\.'

    @add(3)
    def superfluous_error_type(it, rng):
        fs = [a for a in _trait_attrs(it) if not is_fallible(a.name)]
        if not fs:
            return None
        a = rng.choice(fs)
        a.args = a.cp + a.hint + ', Er'
        return it, r'Error type should not be specified for infallible instruction\.'

    @add(4)
    def unknown_counterpart_member(it, rng):
        tag, m = rng.choice(list(_members(it)))
        it.pos = tag
        m.attrs.insert(rng.randrange(len(m.attrs) + 1), Attr(rng.choice(['map', 'into', 'from', 'ghost']), 'zz' if tag != 'x' else '', ded='Zzz'))
        if m.attrs and m.attrs[0].name == 'ghost':
            pass
        return it, r"Type 'Zzz' doesn't match any type specified in trait instructions\."

    @add(4)
    def unknown_counterpart_type_level(it, rng):
        nm = rng.choice(['ghosts', 'where_clause', 'child_parents'] if it.kind == 'struct' else ['ghosts', 'where_clause'])
        args = {'ghosts': 'gx: { 1 }' if it.kind == 'struct' else 'Gx: { E::V0 }', 'where_clause': 'T: Clone', 'child_parents': 'p: P'}[nm]
        it.attrs.insert(rng.randrange(len(it.attrs) + 1), Attr(nm, args, ded='Zzz'))
        return it, r"Type 'Zzz' doesn't match any type specified in trait instructions\."

    @add(4)
    def unknown_counterpart_variant_instr(it, rng):
        vs = [m for m in it.members if isinstance(m, Variant)]
        if not vs:
            return None
        v = rng.choice(vs)
        nm = rng.choice(['literal', 'pattern', 'type_hint'])
        v.attrs.append(Attr(nm, {'literal': '1', 'pattern': '_', 'type_hint': 'as ()'}[nm], ded='Zzz'))
        return it, r"Type 'Zzz' doesn't match any type specified in trait instructions\."

    @add(5)
    def duplicate_default_type_level(it, rng):
        nm = rng.choice(['ghosts', 'where_clause', 'child_parents'] if it.kind == 'struct' else ['ghosts', 'where_clause'])
        args = {'ghosts': 'gx: { 1 }' if it.kind == 'struct' else 'Gx: { E::V0 }', 'where_clause': 'T: Clone', 'child_parents': 'p: P'}[nm]
        for _ in range(2):
            it.attrs.insert(rng.randrange(len(it.attrs) + 1), Attr(nm, args))
        return it, r'There can be at most one default #\[%s\(\.\.\.\)\] instruction\.' % nm

    @add(5)
    def duplicate_dedicated_type_level(it, rng):
        nm = rng.choice(['ghosts', 'where_clause', 'child_parents'] if it.kind == 'struct' else ['ghosts', 'where_clause'])
        args = {'ghosts': 'gx: { 1 }' if it.kind == 'struct' else 'Gx: { E::V0 }', 'where_clause': 'T: Clone', 'child_parents': 'p: P'}[nm]
        cp = rng.choice(_trait_attrs(it)).cp
        for _ in range(2):
            it.attrs.insert(rng.randrange(len(it.attrs) + 1), Attr(nm, args, ded=cp))
        return it, r'Dedicated #\[%s\(\.\.\.\)\] instruction for type .* is already defined\.' % nm

    @add(5)
    def duplicate_default_variant_instr(it, rng):
        vs = [m for m in it.members if isinstance(m, Variant)]
        if not vs:
            return None
        v = rng.choice(vs)
        nm = rng.choice(['literal', 'pattern', 'type_hint'])
        for _ in range(2):
            v.attrs.append(Attr(nm, {'literal': '1', 'pattern': '_', 'type_hint': 'as ()'}[nm]))
        return it, r'There can be at most one default #\[%s\(\.\.\.\)\] instruction for a given member\.' % nm

    @add(5)
    def duplicate_default_parent(it, rng):
        fs = [m for m in it.members if isinstance(m, Field)]
        if not fs or not _has_kind(it, NONFROM) or it.shape != 'named':
            return None
        f = rng.choice(fs)
        f.attrs += [Attr('parent', 'x, y'), Attr('parent', 'u, v')]
        return it, r'There can be at most one default #\[parent\(\.\.\.\)\] instruction for a given member\.'

    @add(6)
    def member_instr_on_type(it, rng):
        nm = rng.choice(['parent', 'as_type', 'literal', 'pattern', 'repeat', 'skip_repeat', 'stop_repeat', 'type_hint'])
        it.attrs.insert(rng.randrange(len(it.attrs) + 1), Attr(nm, {'as_type': 'i32', 'literal': '1', 'pattern': '_', 'type_hint': 'as ()'}.get(nm)))
        if it.kind == 'enum' and nm in ('parent', 'as_type'):
            return it, r"Member instruction '%s' is not applicable to enums\." % nm
        return it, r"Member instruction '%s' should be used on a member\." % nm

    @add(6)
    def misnamed_on_type(it, rng):
        nm, guess = rng.choice([('children', 'child_parents'), ('ghost', 'ghosts'), ('ghost_ref', 'ghosts_ref'), ('ghost_owned', 'ghosts_owned'), ('child', 'child_parents')])
        it.attrs.insert(rng.randrange(len(it.attrs) + 1), Attr(nm, 'p: P' if nm in ('children', 'child') else '{ 1 }', o2o=(nm in ('ghost_ref', 'ghost_owned'))))
        if it.kind == 'enum' and nm == 'child':
            return it, r"Member instruction 'child' is not applicable to enums\."
        return it, r"Perhaps you meant '%s'\?" % guess

    @add(6)
    def struct_instr_on_member(it, rng):
        tag, m = rng.choice(list(_members(it)))
        it.pos = tag
        nm = rng.choice(['where_clause', 'children', 'child_parents'])
        m.attrs.insert(rng.randrange(len(m.attrs) + 1), Attr(nm, 'T: Clone' if nm == 'where_clause' else 'p: P'))
        if nm == 'where_clause':
            return it, r"Struct instruction 'where_clause' should be used on a struct\."
        if it.kind == 'enum' and nm == 'children':
            return it, r"Struct instruction 'children' is not applicable to enums\."
        return it, r"Perhaps you meant 'child'\?"

    @add(6)
    def unknown_in_o2o_list(it, rng):
        if rng.random() < 0.5:
            it.attrs.insert(rng.randrange(len(it.attrs) + 1), Attr('foo', 'x', o2o=True))
            return it, r"Struct instruction 'foo' is not supported\."
        tag, m = rng.choice(list(_members(it)))
        it.pos = tag
        m.attrs.insert(rng.randrange(len(m.attrs) + 1), Attr('foo', 'x', o2o=True))
        return it, r"Member instruction 'foo' is not supported\."

    @add(6)
    def variant_instr_on_field(it, rng):
        fs = [(t, m) for t, m in _members(it) if t in ('field', 'vfield')]
        if not fs:
            return None
        it.pos, f = rng.choice(fs)
        nm = rng.choice(['literal', 'pattern', 'type_hint', 'ghosts'])
        f.attrs.append(Attr(nm, {'literal': '1', 'pattern': '_', 'type_hint': 'as ()', 'ghosts': 'gx: { 1 }'}[nm]))
        return it, r'Instruction #\[%s\(\.\.\.\)\] is not supported for this member\.' % nm

    @add(6)
    def parent_on_variant(it, rng):
        vs = [m for m in it.members if isinstance(m, Variant)]
        if not vs:
            return None
        rng.choice(vs).attrs.append(Attr('parent', rng.choice([None, 'x, y'])))
        return it, r'Instruction #\[parent\(\.\.\.\)\] is not supported for this member\.'

    @add(6)
    def permeate_on_struct_field(it, rng):
        fs = [m for m in it.members if isinstance(m, Field)]
        if not fs:
            return None
        rng.choice(fs).attrs.append(Attr('repeat', 'permeate()'))
        return it, r'Permeating repeat instruction is only applicable to enum variant fields\.'

    @add(7)
    def ghost_without_default(it, rng):
        fs = [m for m in it.members if isinstance(m, Field)]
        if not fs or not _has_kind(it, FROMK):
            return None
        f = rng.choice(fs)
        ded = rng.choice(_has_kind(it, FROMK)).cp if rng.random() < 0.4 else None
        f.attrs.insert(rng.randrange(len(f.attrs) + 1), Attr('ghost', '' if ded else None, ded=ded))
        return it, r"Member instruction #\[ghost\(\.\.\.\)\] for member '.*' should provide default value for type"

    @add(7)
    def ghost_without_default_beside_other_flavour(it, rng):
        """a default #[ghost] without value next to a ghost that has a value but is dedicated to the counterpart for the OTHER ownership
        flavour only (ghost_ref vs a from_owned conversion, ghost_owned vs from_ref): the value-less one is the ghost in effect"""
        fs = [m for m in it.members if isinstance(m, Field) and not any(isinstance(a, Attr) and a.name in GHOSTS for a in m.attrs)]
        owned = _has_kind(it, lambda k: k == 'from_owned')
        byref = _has_kind(it, lambda k: k == 'from_ref')
        if not fs or not (owned or byref) or it.kind != 'struct':
            return None
        if owned and (not byref or rng.random() < 0.5):
            ta, other = rng.choice(owned), 'ghost_ref'
        else:
            ta, other = rng.choice(byref), 'ghost_owned'
        if '..' in (getattr(ta, 'params', '') or ''):
            return None
        f = rng.choice(fs)
        pair = [Attr(other, '{ 0 }', o2o=True, ded=ta.cp), Attr('ghost', None)]
        if rng.random() < 0.5:
            pair.reverse()
        f.attrs += pair
        return it, r"Member instruction #\[ghost\(\.\.\.\)\] for member '.*' should provide default value for type"

    @add(8)
    def child_without_child_parents(it, rng):
        fs = [m for m in it.members if isinstance(m, Field)]
        if not fs or not _has_kind(it, INTOK) or it.shape != 'named':
            return None
        rng.choice(fs).attrs.append(Attr('child', 'p'))
        return it, r'Missing #\[child_parents\(\.\.\.\)\] instruction for'

    @add(8)
    def child_path_missing_in_child_parents(it, rng):
        fs = [m for m in it.members if isinstance(m, Field)]
        if not fs or not _has_kind(it, INTOK) or it.shape != 'named':
            return None
        rng.choice(fs).attrs.append(Attr('child', 'p.q'))
        it.attrs.append(Attr('child_parents', 'p: P'))
        return it, r"Missing 'p\.q: \[Type Path\]' instruction for type"

    @add(8)
    def child_path_only_in_shadowed_child_parents(it, rng):
        """the counterpart has a dedicated #[child_parents(T| ..)]; the path is listed only in the default instruction, which the
        dedicated one shadows for T (expansion looks the path up in the dedicated one)"""
        fs = [m for m in it.members if isinstance(m, Field)]
        into = _has_kind(it, INTOK)
        if not fs or not into or it.shape != 'named' or any(a.name == 'child_parents' for a in it.attrs if isinstance(a, Attr)):
            return None
        cp = rng.choice(into).cp
        rng.choice(fs).attrs.append(Attr('child', 'p.q', ded=cp if rng.random() < 0.5 else None))
        pair = [Attr('child_parents', 'p: P, p.q: Q'), Attr('child_parents', 'p: P', ded=cp)]
        if rng.random() < 0.5:
            pair.reverse()
        it.attrs += pair
        return it, r"Missing 'p\.q: \[Type Path\]' instruction for type"

    @add(9)
    def tuple_to_named_without_names(it, rng):
        if it.kind != 'struct' or it.shape != 'tuple':
            return None
        if not it.members or it.members[0].attrs:
            return None      # the message names member 0: it must be a plain field (a ghost / renamed / flattened field is not at fault)
        a = rng.choice(_trait_attrs(it))
        if is_fallible(a.name):
            a.args = a.cp + ' as {}, ' + (a.err or 'Er')
        else:
            a.args = a.cp + ' as {}'
        a.hint = 'as {}'
        return it, r'Member 0 should have member trait instruction with field name'

    @add(9)
    def tuple_variant_to_named_without_names(it, rng):
        # (a default type_hint already on the variant would win over the injected one: not a misuse then)
        vs = [m for m in it.members if isinstance(m, Variant) and m.shape == 'tuple' and not any(a.name == 'type_hint' for a in m.attrs if isinstance(a, Attr))]
        if not vs:
            return None
        rng.choice(vs).attrs.append(Attr('type_hint', 'as {}'))
        return it, r'Member 0 of a variant V\d should have member trait instruction with field name'

    @add(10)
    def untyped_nested_parent(it, rng):
        fs = [m for m in it.members if isinstance(m, Field)]
        if not fs or not _has_kind(it, FROMK) or it.shape != 'named':
            return None
        f = rng.choice(fs)
        f.attrs = [Attr('parent', rng.choice(['[parent(x)] inner', 'y, [parent([parent(v)] core: Core)] base', '[parent([parent(v)] core)] base: Base',
                                              '[parent([parent([parent(x)] inner: Inner)] outer)] child: Child', '[parent([parent([parent(x)] inner)] outer: Outer)] child']))]
        return it, r"Field '(inner|base|core|outer|child)' should have type here, e\.g\. '(inner|base|core|outer|child): SomeStruct'"

    @add(10)
    def unnamed_nested_member(it, rng):
        fs = [m for m in it.members if isinstance(m, Field)]
        if not fs or not _has_kind(it, NONFROM) or it.shape != 'named':
            return None
        f = rng.choice(fs)
        f.attrs = [Attr('parent', rng.choice(['0', 'x, 1', '[parent(0)] t: T']))]
        return it, r'Member \d should have an instruction that specifies corresponding field name of type'

    @add(11)
    def trait_repeat_not_terminated(it, rng):
        a = rng.choice(_trait_attrs(it))
        extra = 'repeat()'
        def with_param(x, cp):
            return trait_attr(x.name, cp, '', 'Er', extra)
        it.attrs = [b for b in it.attrs if b is not a]
        it.attrs += [with_param(a, a.cp), with_param(a, 'R2')]
        return it, r"Previous repeat\(\) instruction must be terminated with 'stop_repeat'"

    @add(11)
    def trait_repeat_overrides(it, rng):
        a = rng.choice(_trait_attrs(it))
        it.attrs = [b for b in it.attrs if b is not a]
        it.attrs += [trait_attr(a.name, a.cp, '', 'Er', 'repeat(), vars(k: { 1 })'), trait_attr(a.name, 'R2', '', 'Er', 'vars(j: { 2 })')]
        return it, r"Vars will be overriden\. Did you forget to use 'skip_repeat'\?"

    @add(11)
    def parameter_set_twice(it, rng):
        a = rng.choice(_trait_attrs(it))
        p = rng.choice(['vars(k: { 1 }), vars(j: { 2 })', 'attribute(inline), attribute(cold)', 'skip_repeat, skip_repeat', 'repeat(), repeat()'])
        it.attrs = [b for b in it.attrs if b is not a] + [trait_attr(a.name, a.cp, '', 'Er', p)]
        return it, r"Instruction parameter '\w+' was already set\."

    @add(11)
    def unsupported_repeat_type(it, rng):
        if rng.random() < 0.5:
            a = rng.choice(_trait_attrs(it))
            it.attrs = [b for b in it.attrs if b is not a] + [trait_attr(a.name, a.cp, '', 'Er', 'repeat(foo)')]
        else:
            tag, m = rng.choice(list(_members(it)))
            it.pos = tag
            m.attrs.append(Attr('repeat', 'foo'))
        return it, r"#\[repeat\] of instruction type 'foo' is not supported\."

    @add(11)
    def member_repeat_not_terminated(it, rng):
        groups = [[m for m in it.members if isinstance(m, Field)], [m for m in it.members if isinstance(m, Variant)]]
        for m in it.members:
            if isinstance(m, Variant) and len(m.fields) >= 2:
                groups.append(m.fields)
        groups = [g for g in groups if len(g) >= 2]
        if not groups:
            return None
        g = rng.choice(groups)
        i, j = sorted(rng.sample(range(len(g)), 2))
        g[i].attrs.append(Attr('repeat'))
        g[j].attrs.append(Attr('repeat'))
        return it, r'Previous #\[repeat\] instruction must be terminated with #\[stop_repeat\]'

    return inj


# ---------------------------------------------------------------------------------------------
# C01: structured struct cases whose designated mapping is known by construction
# ---------------------------------------------------------------------------------------------
def mattr(name, member=None, expr=None, ded=None, braced=False):
    """a member mapping instruction with structured arguments"""
    if member is not None and expr is not None:
        args = '%s, %s' % (member, ('{ %s }' % expr) if braced else expr)
    elif member is not None:
        args = str(member)
    elif expr is not None:
        args = ('{ %s }' % expr) if braced else expr
    else:
        args = ''
    a = Attr(name, args, ded=ded)
    a.member, a.expr, a.cast = member, expr, None
    return a


def gattr(name, default=None, ded=None):
    a = Attr(name, ('{ %s }' % default) if default is not None else ('' if ded else None), o2o=(name != 'ghost'), ded=ded)
    a.default = default
    return a


def astype_attr(ty, member=None, ded=None):
    a = Attr('as_type', ('%s, %s' % (member, ty)) if member is not None else ty, ded=ded)
    a.member, a.expr, a.cast = member, None, ty
    return a


C01_EXPRS = ['~.clone()', '~ + 1', 'f(~, @.z)', '@.k', 'g(&~)', '~.to_string()', '-~', 'tot({ for x in @.items.iter() { go(x, ~) } })', 'if @.k > 0 { ~ } else { -~ }']


def c01_cases(rng, n, index_rename_on_tuple_dest=False):
    out = []
    kinds = BASIC + [try_name(b) for b in BASIC]
    for i in range(n):
        shape = rng.choice(['named', 'named', 'tuple', 'tuple', 'unit'])
        named = shape == 'named'
        cps = rng.sample(['A', 'B'], rng.choice([1, 1, 2]))
        attrs = []
        hints = {}
        for cp in cps:
            hint = rng.choice(['', '', '', ' as {}', ' as ()', ' as Unit']) if shape != 'unit' else rng.choice(['', ' as Unit', ' as {}', ' as ()'])
            bare = rng.random() < 0.1 and shape != 'unit'
            cpt = '(i32, i16, u8)' if bare else cp
            if bare:
                hint = ''
            hints[cpt] = hint.strip()
            taken = set()
            for nm in rng.sample(TRAIT_NAMES, rng.choice([1, 2, 3, 4])):
                ks = set(kinds_of(nm))
                if ks & taken:
                    continue
                taken |= ks
                params = ''
                if named and hints[cpt] == '' and not cpt.startswith('(') and 'existing' not in nm and rng.random() < 0.2:
                    params = rng.choice(['..upd(@)', '..{ base() }', '..Default::default()'])      # ..update: the base of the literal
                attrs.append(trait_attr(nm, cpt, hint, 'Er', params))
        all_cps = sorted(hints)
        # struct-level ghosts (destination-side extra fields)
        dest_named = {cp: (h == 'as {}' or (h == '' and named and not cp.startswith('('))) for cp, h in hints.items()}
        nf = 0 if shape == 'unit' else rng.randrange(1, 5)
        fields = []
        for j in range(nf):
            fa = []
            for _ in range(rng.choice([0, 0, 1, 1, 1, 2])):
                nt = [c for c in all_cps if not c.startswith('(')]
                ded = rng.choice(nt) if (nt and rng.random() < 0.25) else None
                r = rng.random()
                # member name for the counterpart side: ident for named destinations, index for tuple ones
                tgt_cp = ded or all_cps[0]
                use_index = not dest_named.get(tgt_cp, named)
                if use_index and not index_rename_on_tuple_dest:
                    member = None
                else:
                    member = ('n%d' % j) if not use_index else rng.randrange(0, 4)
                if r < 0.45:
                    nm = rng.choice(MEMBER_MAP_NAMES)
                    form = rng.random()
                    if form < 0.35 and member is not None:
                        fa.append(mattr(nm, member=member, ded=ded))
                    elif form < 0.7:
                        fa.append(mattr(nm, expr=rng.choice(C01_EXPRS), ded=ded, braced=rng.random() < 0.5))
                    elif member is not None:
                        fa.append(mattr(nm, member=member, expr=rng.choice(C01_EXPRS), ded=ded, braced=rng.random() < 0.5))
                elif r < 0.65:
                    fa.append(gattr(rng.choice(GHOSTS), default=rng.choice(['0', 'd%d()' % j, '@.x + 1']), ded=ded))
                elif r < 0.72:
                    fa.append(gattr(rng.choice(GHOSTS), default=None, ded=ded))
                elif r < 0.9:
                    fa.append(astype_attr(rng.choice(['i64', 'f32']), member=member if rng.random() < 0.5 else None, ded=ded))
            fields.append(Field(('a%d' % j) if named else None, rng.choice(['i32', 'u8', 'f64']), fa))
        # tuple struct -> named destination needs names: give every live field one
        gh = []
        if rng.random() < 0.35:
            for cp in all_cps:
                if rng.random() < 0.6:
                    if dest_named[cp]:
                        entries = ['gx: { 7 }', 'gx: { @.q }, gy: { 8 }']
                    else:
                        entries = ['%d: { 7 }' % (nf + 0)]
                    same_shape = len(set(dest_named.values())) == 1 and len(set(hints.values())) == 1
                    g = Attr(rng.choice(['ghosts', 'ghosts_owned', 'ghosts_ref']), rng.choice(entries), ded=cp if ((rng.random() < 0.6 or not same_shape) and not cp.startswith('(')) else None)
                    if g.ded is None and not same_shape:
                        continue
                    gh.append(g)
        attrs += gh
        rng.shuffle(attrs)
        it = Item('struct', 'S', shape, '', attrs, fields, {'gen': 'c01', 'hints': hints, 'index_rename_cell': index_rename_on_tuple_dest})
        out.append(it)
    return out


def c01_index_perm_cases(rng, n):
    """index renames that are a permutation of the positions, under tuple-shaped destinations (finding F-01a's cell)"""
    out = []
    for i in range(n):
        k = rng.randrange(2, 5)
        perm = list(range(k))
        rng.shuffle(perm)
        named = rng.random() < 0.5
        hint = ' as ()' if named else rng.choice(['', ' as ()'])
        attrs = [trait_attr(nm, 'D', hint, 'Er') for nm in rng.sample(['map', 'into_existing', 'try_map', 'try_into_existing', 'owned_into', 'from_ref'], 3)
                 ]
        seen = set()
        attrs2 = []
        for a in attrs:
            ks = set(kinds_of(a.name))
            if ks & seen:
                continue
            seen |= ks
            attrs2.append(a)
        fields = [Field(('a%d' % j) if named else None, 'i32', [mattr(rng.choice(['map', 'into', 'from', 'into_existing']), member=perm[j])]) for j in range(k)]
        # every flavour must see an instruction: use `map` + `into_existing` forms only when they cover the requested kinds; simplest: map on all
        for f in fields:
            f.attrs = [mattr('map', member=f.attrs[0].member)]
        out.append(Item('struct', 'S', 'named' if named else 'tuple', '', attrs2, fields, {'gen': 'c01_index_perm', 'hints': {'D': hint.strip()}}))
    return out


# ---------------------------------------------------------------------------------------------
# C07: several flavours of ONE mapping, with instructions that apply to all of them alike
# ---------------------------------------------------------------------------------------------
def c07_cases(rng, n):
    out = []
    for i in range(n):
        if rng.random() < 0.7:
            shape = rng.choice(['named', 'named', 'tuple'])
            named = shape == 'named'
            hint = rng.choice(['', '', ' as {}', ' as ()'])
            dnamed = (hint == ' as {}') or (hint == '' and named)
            params = rng.choice(['', '', '', 'vars(k: { 1 })'])
            names = rng.choice([['map', 'into_existing', 'try_map', 'try_into_existing'], ['into', 'into_existing'], ['map', 'try_map'],
                                ['owned_into', 'ref_into', 'owned_into_existing', 'ref_try_into_existing', 'owned_try_into'],
                                ['from_owned', 'from_ref', 'try_from_owned', 'try_from_ref']])
            attrs = [trait_attr(nm, 'A', hint, 'Er', params) for nm in names]
            fields = []
            for j in range(rng.randrange(1, 6)):
                fa = []
                r = rng.random()
                member = ('n%d' % j) if dnamed else None
                if r < 0.25 and member is not None:
                    fa.append(mattr('map', member=member))
                elif r < 0.45:
                    fa.append(mattr('map', member=member, expr=rng.choice(C01_EXPRS), braced=rng.random() < 0.5))
                elif r < 0.6:
                    fa.append(gattr('ghost', default=rng.choice(['0', 'd()'])))
                elif r < 0.7:
                    fa.append(astype_attr('i64', member=member if rng.random() < 0.5 else None))
                elif r < 0.8 and named:
                    # a default and a dedicated instruction of one family side by side (either order): every flavour - the
                    # into_existing ones through their fallback to the into instructions - must pick the dedicated one
                    fam = rng.choice(['into', 'map', 'into', 'from'])      # families that treat the owned and the by-reference flavour alike
                    pair = [mattr(fam, member=('p%d' % j) if dnamed else None, expr='da(~)'),
                            mattr(fam, member=('q%d' % j) if dnamed else None, expr='db(~)', ded='A')]
                    if rng.random() < 0.6:
                        pair.reverse()
                    fa += pair
                elif not named and dnamed:
                    fa.append(mattr('map', member=member))
                if not named and dnamed and not fa:
                    fa.append(mattr('map', member='n%d' % j))
                fields.append(Field(('a%d' % j) if named else None, 'i32', fa))
            if rng.random() < 0.3:
                attrs.append(Attr('ghosts', 'gx: { 7 }' if dnamed else '%d: { 7 }' % len([f for f in fields if not any(a.name == 'ghost' for a in f.attrs)])))
            out.append(Item('struct', 'S', shape, '', attrs, fields, {'gen': 'c07_struct'}))
        else:
            names = rng.choice([['map', 'try_map'], ['from_owned', 'from_ref', 'try_from_owned', 'try_from_ref'], ['owned_into', 'ref_into', 'owned_try_into', 'ref_try_into']])
            params = rng.choice(['', '', '_ => dflt()'])
            attrs = [trait_attr(nm, 'A', '', 'Er', params) for nm in names]
            vs = []
            for j in range(rng.randrange(1, 5)):
                sh = rng.choice(['unit', 'tuple', 'named'])
                va = []
                r = rng.random()
                if r < 0.3:
                    va.append(Attr('map', 'W%d' % j))
                elif r < 0.4:
                    va.append(Attr('ghost', '{ dv() }'))
                elif r < 0.5:
                    va.append(Attr('type_hint', rng.choice(['as {}', 'as ()'])))
                fs = [] if sh == 'unit' else [Field('x%d' % q if sh == 'named' else None, 'i32', [Attr('map', rng.choice(['k%d' % q, 'k%d, ~ + 1' % q]))] if rng.random() < 0.5 and sh == 'named' else [])
                                              for q in range(rng.randrange(1, 3))]
                vs.append(Variant('V%d' % j, sh, fs, va))
            out.append(Item('enum', 'E', 'named', '', attrs, vs, {'gen': 'c07_enum'}))
    return out


def c07_parent_cases(rng, n):
    """named structs flattening bare #[parent] fields whose own conversion may write a destination field the outer struct also maps
    (renames onto shared names, ghosts) - the order of own assignments and parent conversions is then observable"""
    out = []
    shared = ['rev', 'id', 'name']
    for i in range(n):
        names = rng.choice([['into', 'into_existing', 'try_into', 'try_into_existing'], ['into_existing', 'try_into_existing'],
                            ['owned_into', 'owned_into_existing', 'owned_try_into_existing'], ['ref_into', 'ref_try_into', 'ref_try_into_existing', 'ref_into_existing'],
                            ['map', 'into_existing', 'try_map', 'try_into_existing']])
        params = rng.choice(['', '', 'vars(k: { 1 })'])
        attrs = [trait_attr(nm, 'A', '', 'Er', params) for nm in names]
        fields = []
        nf = rng.randrange(2, 6)
        parents = set(rng.sample(range(nf), rng.choice([1, 1, 2])))
        for j in range(nf):
            if j in parents:
                fields.append(Field('p%d' % j, 'P%d' % j, [Attr('parent')]))
                continue
            r = rng.random()
            fa = []
            if r < 0.4:
                fa.append(mattr('map', member=rng.choice(shared)))
            elif r < 0.55:
                fa.append(mattr('map', member=rng.choice(shared), expr=rng.choice(C01_EXPRS), braced=rng.random() < 0.5))
            elif r < 0.65:
                fa.append(gattr('ghost', default='0'))
            fields.append(Field(rng.choice(shared) if r >= 0.65 and rng.random() < 0.5 and not any(f.name in shared for f in fields) else 'a%d' % j, 'i32', fa))
        if rng.random() < 0.3:
            attrs.append(Attr('ghosts', '%s: { 7 }' % rng.choice(shared)))
        out.append(Item('struct', 'S', 'named', '', attrs, fields, {'gen': 'c07_parent'}))
    return out


def c04_repeat_items(rng, n):
    """trait instructions of one name under repeat(..) blocks, each declaring its own counterpart and error type"""
    out = []
    for i in range(n):
        nm = rng.choice(TRAIT_NAMES)
        enum = rng.random() < 0.3 and 'existing' not in nm
        cps = rng.sample(['A', 'B', 'C', 'x::D', 'G<u8>'], rng.choice([2, 3, 4]))
        errs = ['Er', 'x::Er2', 'Er3<String>', 'Er4', 'Er5']
        rng.shuffle(errs)
        attrs = []
        for j, cp in enumerate(cps):
            ps = []
            if j == 0 or rng.random() < 0.15:
                if j > 0:
                    ps.append('stop_repeat')
                ps.append('repeat(%s)' % rng.choice(['', 'vars', 'update', 'vars, quick_return']))
                ps.append(rng.choice(['vars(k: { 1 })', 'return mk(@)', 'vars(k: { 1 }), return mk(@)']))
            elif rng.random() < 0.2:
                ps.append('skip_repeat')
            attrs.append(trait_attr(nm, cp, '', errs[j], ', '.join(ps)))
        if rng.random() < 0.5:
            other = rng.choice([x for x in TRAIT_NAMES if not (set(kinds_of(x)) & set(kinds_of(nm))) and (not enum or 'existing' not in x)] or [nm])
            if other != nm:
                attrs.insert(rng.randrange(len(attrs) + 1), trait_attr(other, 'Z', '', 'Ez'))
        if enum:
            it = Item('enum', 'E', 'named', '', attrs, [Variant('V'), Variant('W', 'tuple', [Field(None, 'i32')])])
        else:
            it = Item('struct', 'S', 'named', '', attrs, [Field('a', 'i32'), Field('b', 'i16')])
        it.meta = {'gen': 'c04_repeat'}
        out.append(it)
    return out


# ---------------------------------------------------------------------------------------------
# C08: trait-instruction parameters in every combination and order
# ---------------------------------------------------------------------------------------------
def c08_cases(rng, n):
    out = []
    for i in range(n):
        enum = rng.random() < 0.3
        names = [x for x in TRAIT_NAMES if not (enum and 'existing' in x)]
        nm = rng.choice(names)
        spec = {'vars': None, 'attribute': None, 'impl_attribute': None, 'inner_attribute': None, 'tail': None}
        if rng.random() < 0.6:
            spec['vars'] = [('k%d' % j, rng.choice(['1', '@.x + 1', 'mk(@)', 'two(2, @)', 'tot({ for x in @.items.iter() { go(x) } })'])) for j in range(rng.choice([1, 1, 2, 3]))]
        for a, choices in (('attribute', ['inline', 'allow(unused)', 'doc = "x"']), ('impl_attribute', ['cfg(any())', 'allow(dead_code)']),
                           ('inner_attribute', ['allow(unused_variables)', 'allow(clippy::all)'])):
            if rng.random() < 0.35:
                spec[a] = rng.choice(choices)
        r = rng.random()
        if r < 0.3 and not enum:
            spec['tail'] = ('update', rng.choice(['Default::default()', 'base(@)', 'D { q: 1, ..mk() }', '<D as Seed<i32, u8>>::seed()', 'Mk::<i32, i64>::mk(@, 0)']))
        elif r < 0.55:
            spec['tail'] = ('return', rng.choice(['mk(@)', 'conv(&@, 3)', 'W { a: @.a }', 'Tot::<i32, i64>::new(@.a, 0)', 'Vec::<(i32, i32)>::from(@)', 'fold(@, |a, b| a + b)', 'Foo::<A, _>::new()']))
        elif r < 0.75 and enum:
            spec['tail'] = ('default', rng.choice(['panic!()', 'dflt()', 'Mk::<i32, u8>::mk()', 'todo!("a, b")']))
        ps = []
        if spec['vars']:
            ps.append('vars(%s)' % ', '.join('%s: { %s }' % kv for kv in spec['vars']))
        for a in ('attribute', 'impl_attribute', 'inner_attribute'):
            if spec[a]:
                ps.append('%s(%s)' % (a, spec[a]))
        rng.shuffle(ps)
        if spec['tail']:
            kw = {'update': '..', 'return': 'return ', 'default': '_ => '}[spec['tail'][0]]
            braced = rng.random() < 0.5 and spec['tail'][0] != 'default'
            ps.append(kw + (('{ %s }' % spec['tail'][1]) if braced else spec['tail'][1]))
        # `return` replaces the whole body: shapes whose member-by-member rendering would need more instructions than the input has
        # (validation deliberately accepts them under `return`) must expand to the expression all the same
        bare_shape = spec['tail'] is not None and spec['tail'][0] == 'return' and rng.random() < 0.3
        attrs = [trait_attr(nm, 'A', ' as {}' if (bare_shape and not enum) else '', 'Er', ', '.join(ps))]
        if rng.random() < 0.3 and not bare_shape:
            attrs.append(trait_attr(rng.choice([x for x in names if not (set(kinds_of(x)) & set(kinds_of(nm)))] or [nm]), 'B', '', 'Er'))
            if attrs[-1].name == nm:
                attrs.pop()
        rng.shuffle(attrs)
        if enum:
            vs = [Variant('V', 'unit', [], [Attr('ghost', '{ dv() }')] if rng.random() < 0.4 else []),
                  Variant('W', 'tuple', [Field(None, 'i32')], [Attr('type_hint', 'as {}')] if bare_shape else []),
                  Variant('X', 'named', [Field('p', 'i32', [Attr('map', 'q')])])]
            it = Item('enum', 'E', 'named', '', attrs, vs)
        else:
            named = rng.random() < 0.7 and not bare_shape
            use_k = spec['vars'] and rng.random() < 0.6
            fields = [Field('a' if named else None, 'i32', [Attr('map', '~ + k0')] if use_k else []), Field('b' if named else None, 'i16', [Attr('map', 'bb')] if named and rng.random() < 0.5 else [])]
            if rng.random() < 0.2:
                fields.append(Field('par' if named else None, 'P', [Attr('parent')]))
            if spec['tail'] and spec['tail'][0] == 'update' and named and len(attrs) == 1 and rng.random() < 0.5:
                fields.append(Field('g', 'u8', [Attr('ghost')]))      # filled by ..update (only when every instruction has one)
            nested = False
            if spec['tail'] and spec['tail'][0] == 'update' and named and 'existing' not in nm and not any(a.name == 'parent' for f in fields for a in f.attrs) \
                    and rng.random() < 0.3:
                # a nested destination container: the literal built for it is closed by the same ..update
                nested = True
                attrs.append(Attr('child_parents', rng.choice(['base: Base', 'base: Base, base.inner: Inner'])))
                fields.append(Field('c', 'i32', [Attr('child', 'base')]))
                if 'inner' in attrs[-1].args:
                    fields.append(Field('d', 'i32', [Attr('child', 'base.inner')]))
            it = Item('struct', 'S', 'named' if named else 'tuple', '', attrs, fields)
        it.meta = {'gen': 'c08', 'spec': spec, 'instr': nm, 'cp': 'A', 'nested': (not enum) and nested}
        out.append(it)
    return out


# ---------------------------------------------------------------------------------------------
# C02: structured enums whose designated arms are known by construction
# ---------------------------------------------------------------------------------------------
def c02_cases(rng, n):
    out = []
    names = [x for x in TRAIT_NAMES if 'existing' not in x]
    for i in range(n):
        cps = ['A'] if rng.random() < 0.7 else ['A', 'B']
        attrs = []
        dflt = {}
        for cp in cps:
            taken = set()
            for nm in rng.sample(names, rng.choice([1, 2, 3])):
                ks = set(kinds_of(nm))
                if ks & taken:
                    continue
                taken |= ks
                dc = rng.choice(['', '', '_ => dflt()'])
                attrs.append(trait_attr(nm, cp, '', 'Er', dc))
        vs = []
        for j in range(rng.randrange(1, 5)):
            sh = rng.choice(['unit', 'tuple', 'named'])
            va = []
            spec = {'rename': None, 'hint': None, 'ghost': None, 'expr': None}
            r = rng.random()
            if r < 0.3:
                spec['rename'] = 'W%d' % j
                va.append(mattr(rng.choice(['map', 'map', 'from', 'into']), member=spec['rename']))
                spec['rename_instr'] = va[-1].name
            elif r < 0.42:
                spec['ghost'] = rng.choice(['dv%d()' % j, None])
                va.append(gattr('ghost', default=spec['ghost']))
            force_no_member = False
            if len(cps) == 2 and sh == 'named' and rng.random() < 0.35 and 'ghost' not in [a.name for a in va]:
                # the counterparts see the variant in different forms: a #[type_hint] dedicated to one of them, alone or next to a
                # default one (either order).  Payload fields then carry no member names, which is valid under both forms.
                x = rng.choice(cps)
                y = [c for c in cps if c != x][0]
                if rng.random() < 0.4:
                    va.append(Attr('type_hint', 'as ()', ded=x))
                    spec['hints'] = {x: 'as ()', y: None}
                else:
                    pair = [Attr('type_hint', 'as ()'), Attr('type_hint', 'as {}', ded=x)]
                    if rng.random() < 0.5:
                        pair.reverse()
                    va += pair
                    spec['hints'] = {x: 'as {}', y: 'as ()'}
                force_no_member = True
            elif rng.random() < 0.25 and spec['ghost'] is None and 'ghost' not in [a.name for a in va]:
                spec['hint'] = rng.choice(['as {}', 'as ()', 'as Unit'])
                va.append(Attr('type_hint', spec['hint']))
            fs = []
            use_perm = False
            if sh != 'unit':
                nfl = rng.randrange(1, 4)
                perm = list(range(nfl))
                rng.shuffle(perm)
                use_perm = rng.random() < 0.3
                for q in range(nfl):
                    fa = []
                    named_dst = (spec['hint'] == 'as {}') or (spec['hint'] is None and sh == 'named')
                    r2 = rng.random()
                    if sh == 'tuple' and named_dst:
                        member = 'k%d' % q
                    elif not named_dst and use_perm and spec['hint'] != 'as Unit':
                        member = perm[q]
                    elif not named_dst:
                        member = None
                    else:
                        member = ('k%d' % q) if r2 < 0.5 else None
                    if force_no_member:
                        member = None
                    if sh == 'tuple' and named_dst and nfl > 1 and rng.random() < 0.2:
                        # a ghost payload field among renamed ones: the bindings of the fields after it keep their own positions
                        fa.append(gattr('ghost', default='0'))
                        fs.append(Field(None, 'i32', fa))
                        continue
                    if member is not None and r2 < 0.3:
                        fa.append(mattr('map', member=member, expr=rng.choice(['~ + 1', '~.clone()', 'h(~)'])))
                    elif member is not None:
                        fa.append(mattr('map', member=member))
                    elif r2 < 0.25:
                        fa.append(mattr('map', expr=rng.choice(['~ + 1', 'h(~)'])))
                    elif r2 < 0.33:
                        fa.append(gattr('ghost', default='0'))
                    fs.append(Field(('x%d' % q) if sh == 'named' else None, 'i32', fa))
            # ghost payload fields of the counterpart variant: default and dedicated #[ghosts] instructions, in either order
            spec['vghosts'] = []
            cshape = {'as {}': 'named', 'as ()': 'tuple', 'as Unit': 'unit'}.get(spec['hint'], sh)
            if (sh != 'unit' and cshape == sh and not spec.get('hints') and spec['ghost'] is None and not any(a.name == 'ghost' for a in va)
                    and not use_perm and not any(a.name in GHOSTS for f in fs for a in f.attrs) and rng.random() < 0.3):
                entry = 'gs' if sh == 'named' else str(len(fs))
                deds = rng.choice([[None], [rng.choice(cps)], [None, rng.choice(cps)], [rng.choice(cps), None], [None, cps[-1]]])
                for k, d in enumerate(deds):
                    gname = rng.choice(['ghosts', 'ghosts', 'ghosts', 'ghosts_owned', 'ghosts_ref'])
                    dflt_ = 'gd%d%s()' % (j, 'abc'[k])
                    va.append(Attr(gname, '%s: { %s }' % (entry, dflt_), ded=d))
                    spec['vghosts'].append((gname, d, entry, dflt_))
            v = Variant('V%d' % j, sh, fs, va)
            v.spec = spec
            vs.append(v)
        # ghost variants of the counterpart: enum-level #[ghosts], default and dedicated, in either order
        eghosts = []
        if rng.random() < 0.3:
            deds = rng.choice([[None], [rng.choice(cps)], [None, rng.choice(cps)], [rng.choice(cps), None], [None, cps[-1]]])
            for k, d in enumerate(deds):
                gname = rng.choice(['ghosts', 'ghosts', 'ghosts', 'ghosts_owned', 'ghosts_ref'])
                ents = [('G0', 'G0', 'eg%s()' % 'abc'[k])]
                if rng.random() < 0.4:
                    ents.append(('G1', 'G1(x)', 'mk%s(x)' % 'abc'[k]))
                attrs.append(Attr(gname, ', '.join('%s: { %s }' % (pt, df) for _, pt, df in ents), ded=d))
                eghosts.append((gname, d, ents))
        it = Item('enum', 'E', 'named', '', attrs, vs, {'gen': 'c02', 'eghosts': eghosts})
        out.append(it)
    return out


# ---------------------------------------------------------------------------------------------
# C09: literal / pattern enums over integer and string counterparts
# ---------------------------------------------------------------------------------------------
def c09_cases(rng, n):
    """enums mapped to one or two primitive counterparts; every variant carries a literal or a pattern, in default form, in a form
    dedicated to one counterpart, or both (either order: the dedicated one must win for its counterpart, the default one for the other)"""
    out = []
    for i in range(n):
        strs = rng.random() < 0.25
        if strs:
            cps = [rng.choice(['StrT', 'StrT', 'String'])]      # a counterpart that is spelled like a std type stays the user's name
        else:
            cps = rng.sample(['i32', 'u8', 'i64'], 2 if rng.random() < 0.45 else 1)
        attrs = []
        has_default = rng.random() < 0.6
        for cp in cps:
            names = rng.sample(['from_owned', 'from_ref', 'try_from_owned', 'owned_into', 'ref_into', 'owned_try_into', 'map', 'from', 'into', 'try_map'], rng.choice([1, 2, 3]))
            taken = set()
            for nm in names:
                ks = set(kinds_of(nm))
                if ks & taken:
                    continue
                taken |= ks
                attrs.append(trait_attr(nm, cp, '', 'Er', '_ => dflt()' if has_default else ''))
        rng.shuffle(attrs)
        vs = []
        specs = {cp: [] for cp in cps}
        k = rng.randrange(1, 6)
        lits = rng.sample(range(0, 12), k) if rng.random() < 0.8 else [rng.randrange(0, 3) for _ in range(k)]

        def new_pat(cp):
            if strs:
                return rng.choice(['_', '"s1" | "s2"', '"zz"', '"s 1" | "s 2"', '"z z"', 'EMPTY'])
            a = rng.randrange(0, 10)
            # a lone identifier may name a constant: a refutable pattern like any literal
            return rng.choice(['_', '%d..=%d' % (a, a + rng.randrange(0, 5)), '%d | %d' % (a, a + 2), '%d..' % a, 'i32::MIN..=-1' if cp == 'i32' else '200..=255',
                               'LIMIT', 'Kc::TOP'])

        for j in range(k):
            r = rng.random()
            va = []
            eff = {cp: (None, None) for cp in cps}      # counterpart -> (literal, pattern) in effect
            into_expr = None
            mode = rng.random()
            if len(cps) == 2 and mode < 0.6:
                if rng.random() < 0.6:
                    # default + dedicated of the same instruction, either order
                    ded_cp = rng.choice(cps)
                    if r < 0.6:
                        d, dd = str(lits[j]), str(lits[j] + 20 + j)
                        pair = [Attr('literal', d), Attr('literal', dd, ded=ded_cp)]
                        for cp in cps:
                            eff[cp] = (dd if cp == ded_cp else d, None)
                    else:
                        d, dd = new_pat(None if strs else 'u8'), new_pat(ded_cp)
                        pair = [Attr('pattern', d), Attr('pattern', dd, ded=ded_cp)]
                        for cp in cps:
                            eff[cp] = (None, dd if cp == ded_cp else d)
                    if rng.random() < 0.6:
                        pair.reverse()
                    va += pair
                else:
                    # dedicated only, one per counterpart (instructions may differ), either order
                    ded = []
                    for cp in cps:
                        if rng.random() < 0.6:
                            l = str(lits[j] + (30 if cp == cps[1] else 0))
                            ded.append(Attr('literal', l, ded=cp))
                            eff[cp] = (l, None)
                        else:
                            pt = new_pat(cp)
                            ded.append(Attr('pattern', pt, ded=cp))
                            eff[cp] = (None, pt)
                    rng.shuffle(ded)
                    va += ded
            elif r < 0.55:
                # string values that differ in blanks only are different values
                lit = (rng.choice(['"s%d"', '"s%d"', '"s %d"', '" s%d"']) % lits[j]) if strs else str(lits[j])
                va.append(Attr('literal', lit))
                for cp in cps:
                    eff[cp] = (lit, None)
            elif r < 0.9:
                pat = new_pat(cps[0])
                va.append(Attr('pattern', pat))
                for cp in cps:
                    eff[cp] = (None, pat)
            if any(e[1] is not None for e in eff.values()) and rng.random() < 0.5:
                va.append(Attr('into', '{ conv%d() }' % j))
                into_expr = 'conv%d()' % j
                if any(e[0] is not None for e in eff.values()):
                    # a literal in effect for one counterpart together with a member instruction is outside the implemented arms
                    va.pop()
                    into_expr = None
            vs.append(Variant('V%d' % j, 'unit', [], va))
            for cp in cps:
                specs[cp].append({'name': 'V%d' % j, 'lit': eff[cp][0], 'pat': eff[cp][1], 'into': into_expr})
        it = Item('enum', 'E', 'named', '', attrs, vs, {'gen': 'c09', 'specs': specs, 'spec': specs[cps[0]], 'default': has_default, 'cp': cps[0], 'cps': cps})
        out.append(it)
    return out


# ---------------------------------------------------------------------------------------------
# C11: generic parameter lists x counterpart paths with lifetime / generic arguments x where clauses
# ---------------------------------------------------------------------------------------------
def c11_cases(rng, n):
    out = []
    kinds = BASIC + [try_name(b) for b in BASIC] + ['map', 'into_existing']
    for i in range(n):
        lts = rng.sample(['a', 'b', 'c'], rng.choice([0, 0, 1, 2]))
        if lts and rng.random() < 0.04:
            lts[0] = 'o2o'            # the user's own lifetime carries the name of the `fresh` one (finding F-11g)
        tys = []
        for t in rng.sample(['T', 'U'], rng.choice([0, 1, 1, 2])):
            tys.append((t, rng.choice(['', ': Clone', ': Clone + Into<u8>', ': ?Sized', " : 'static"]), rng.choice(['', '', ' = u8']) ))
        consts = [('N', 'usize')] if rng.random() < 0.25 else []
        # declaration order: lifetimes first (required by rustc), then types and consts in any order; defaults only trail
        rest = [('ty', t) for t in tys] + [('const', c) for c in consts]
        rng.shuffle(rest)
        if any(k == 'ty' and t[2] for k, t in rest):
            rest = [x for x in rest if not (x[0] == 'ty' and x[1][2])] + [x for x in rest if x[0] == 'ty' and x[1][2]]
        decl = ["'%s" % l for l in lts]
        if len(lts) == 2 and rng.random() < 0.3:
            decl[1] = "'%s: '%s" % (lts[1], lts[0])
        for k, t in rest:
            if k == 'ty':
                decl.append('%s%s%s' % (t[0], t[1], t[2]))
            else:
                decl.append('const %s: %s' % t)
        generics = ('<%s>' % ', '.join(decl)) if decl else ''
        names = ["'%s" % l for l in lts] + [t[1][0] for t in rest]
        cps = []
        for cpn in rng.sample(['A', 'B', 'x::C'], rng.choice([1, 1, 2])):
            pool = ["'%s" % l for l in lts] + ["'x", "'y", "'static", "'_"]
            args = []
            for _ in range(rng.choice([0, 0, 1, 2, 2])):
                args.append(rng.choice(pool))
            if rng.random() < 0.2 and args:
                args.append(args[0])                      # the same lifetime twice
            targs = [t[0] for t in tys if rng.random() < 0.5] + (['u8'] if rng.random() < 0.2 else [])
            if rng.random() < 0.12:
                # a lifetime nested inside a type argument of the counterpart path (finding F-11e: not declared on the impl)
                targs.append(rng.choice(["&'x str", "Cow<'y, str>", "&'x [u8]", "Box<dyn It<Item = &'x u8> + 'y>"]))
            allargs = args + targs
            cps.append(cpn + (('<%s>' % ', '.join(allargs)) if allargs else ''))
        attrs = []
        for cp in cps:
            taken = set()
            for nm in rng.sample(kinds, rng.choice([1, 2, 3])):
                ks = set(kinds_of(nm))
                if ks & taken:
                    continue
                taken |= ks
                attrs.append(trait_attr(nm, cp, '', 'Er'))
        wh = {}
        if rng.random() < 0.5:
            wh[None] = rng.choice(['T: Copy', "T: Into<u8> + 'static, U: x::Y", 'Self: Sized'])
            attrs.append(Attr('where_clause', wh[None]))
        if rng.random() < 0.35:
            cp = rng.choice(cps)
            wh[cp] = rng.choice(['T: Default', 'U: Clone'])
            attrs.append(Attr('where_clause', wh[cp], ded=cp))
        rng.shuffle(attrs)
        shape = rng.choice(['named', 'named', 'tuple'])
        fields = [Field('a' if shape == 'named' else None, 'i32'), Field('b' if shape == 'named' else None, 'i16', [Attr('map', 'bb')] if shape == 'named' else [])]
        it = Item('struct', 'S', shape, generics, attrs, fields,
                  {'gen': 'c11', 'lts': lts, 'decl': decl, 'names': names, 'where': {(oracles_norm(k) if k else None): v for k, v in wh.items()}})
        # the deriving type's own where-clause: its predicates come first in every impl
        if rng.random() < 0.4:
            it.where = rng.choice(['Self: Sized', 'u8: Copy', "i32: Into<i64> + 'static, u8: Copy", '(): Sized,'] +
                                  (['T: Clone', 'T: Default + Send, T: Sync'] if any(t[0] == 'T' for t in tys) else []) +
                                  (["'%s: 'static" % lts[0]] if lts else []))
        it.meta['own_where'] = it.where
        out.append(it)
    return out


def oracles_norm(s):
    return s.replace(' ', '').replace("'o2o", '').replace('::<', '<')


def c17_enum_existing(rng, n):
    out = []
    for i in range(n):
        nm = rng.choice(['into_existing', 'owned_into_existing', 'ref_into_existing', 'try_into_existing'])
        out.append(Item('enum', 'E', 'named', '', [trait_attr(nm, 'D', '', 'Er')], [Variant('A'), Variant('B', 'tuple', [Field(None, 'i32')])], {'gen': 'c17_enum_existing'}))
        out.append(Item('struct', 'S', 'named', '', [trait_attr(rng.choice(['owned_into', 'into', 'try_into']), 'D', '', 'Er', 'return mk(@)')],
                        [Field('a', 'i32'), Field('p', 'P', [Attr('parent')])], {'gen': 'c17_qret_parent'}))
        # a bare #[parent] (assignment-style body) together with a flattened #[child] member
        out.append(Item('struct', 'S', 'named', '', [trait_attr(rng.choice(['owned_into', 'ref_into', 'into', 'try_into', 'into_existing']), 'D', '', 'Er'),
                                                     Attr('child_parents', rng.choice(['base: Base', 'base: Base, base.inner: Inner']))],
                        [Field('a', 'i32'), Field('c', 'i32', [Attr('child', 'base')]), Field('p', 'P', [Attr('parent')])], {'gen': 'c17_parent_child'}))
    return out


# ---------------------------------------------------------------------------------------------
# C19: inputs on which an iteration over an unordered container could show: several open trait-level
# repeat() templates that cover a later, narrower instruction; several simultaneous diagnostics
# ---------------------------------------------------------------------------------------------
def c19_cases(rng, n):
    out = []
    families = [(['from', 'map_owned', 'map'], ['from_owned']), (['into', 'map', 'map_owned'], ['owned_into']), (['into', 'map', 'map_ref'], ['ref_into']),
                (['from', 'map', 'map_ref'], ['from_ref']), (['try_from', 'try_map_owned', 'try_map'], ['try_from_owned']),
                (['try_into', 'try_map'], ['owned_try_into', 'ref_try_into']), (['into_existing'], ['owned_into_existing', 'ref_into_existing'])]
    tails = ['return mk(@)', 'return other(@)', 'vars(k: { 1 })', 'vars(j: { 2 }), return third(@)', '..base()']
    for i in range(n):
        wide, narrow = rng.choice(families)
        ws = rng.sample(wide, min(len(wide), rng.choice([2, 2, 3])))
        attrs = []
        cps = ['A', 'B', 'C', 'D', 'F', 'G']
        rng.shuffle(cps)
        for j, w in enumerate(ws):
            attrs.append(trait_attr(w, cps[j], '', 'Er', 'repeat(), ' + tails[j % len(tails)] if rng.random() < 0.9 else tails[j % len(tails)]))
        for j, nm in enumerate(rng.sample(narrow, rng.choice([1, len(narrow)]))):
            attrs.append(trait_attr(nm, cps[3 + j], '', 'Er', rng.choice(['', '', 'skip_repeat'])))
        if rng.random() < 0.3:
            rng.shuffle(attrs)
        fields = [Field('a', 'i32'), Field('b', 'i16', [Attr('map', 'bb')] if rng.random() < 0.5 else [])]
        if rng.random() < 0.3:
            # several faults at once: the diagnostics come out of a map
            fields[0].attrs += [Attr('map', 'x', ded='Zzz'), Attr('ghost', None, ded=None) if rng.random() < 0.5 else Attr('child', 'p.q')]
            attrs.append(Attr('where_clause', 'T: Clone', ded='Yyy'))
        if rng.random() < 0.25:
            # same-named counterparts (x::D / y::D / D<u8> / D::<u16>) next to instructions dedicated to a type that is none of them:
            # whatever a diagnostic says about candidates must not depend on the iteration order of a set of types
            twins = rng.sample(['x::D', 'y::D', 'D<u8>', 'D::<u16>', 'v1::m::D', 'z::D<i8>'], rng.choice([2, 3, 4]))
            attrs = [trait_attr(rng.choice(['map', 'into', 'from', 'try_map']), t, '', 'Er') for t in twins]
            ded = rng.choice(['D', 'w::D', 'D<i64>'])
            fields[0].attrs += [Attr(rng.choice(['map', 'from', 'into']), 'x', ded=ded)]
            if rng.random() < 0.5:
                fields[1].attrs += [Attr('ghost', '{ 1 }', ded=ded)]
            if rng.random() < 0.5:
                attrs.append(Attr(rng.choice(['ghosts', 'where_clause', 'child_parents']), {'ghosts': 'g: { 1 }', 'where_clause': 'T: Clone', 'child_parents': 'p: P'}, ded=ded))
                nm = attrs[-1].name
                attrs[-1].args = attrs[-1].args[nm]
        out.append(Item('struct', 'S', 'named', '', attrs, fields, {'gen': 'c19'}))
    return out
