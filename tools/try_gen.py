#!/usr/bin/env python3
import sys, os, random, collections
sys.path.insert(0, os.path.dirname(os.path.abspath(__file__)))
import vlib, gen
which = sys.argv[1]
n = int(sys.argv[2]) if len(sys.argv) > 2 else 1000
be = sys.argv[3] if len(sys.argv) > 3 else 's1'
rng = random.Random(int(os.environ.get('VERIF_SEED', '1')))
if which == 'struct': items = gen.grid_struct_lines()
elif which == 'enum': items = gen.grid_enum_lines()
elif which == 'vfield': items = gen.grid_variant_fields()
elif which == 'trait': items = gen.grid_trait_instrs()
elif which == 'comp': items = gen.composites(rng, n)
elif which == 'soup': items = gen.soup(rng, n)
cases = [('%s-%d' % (which, i), it.render()) for i, it in enumerate(items)]
wd = '/verif/build/tmp/try'
h = vlib.run_impl(cases, be, wd, tag=which)
m = vlib.run_model(wd, be, tag=which)
cnt = collections.Counter()
shown = 0
texts = dict(cases)
for cid, hv in h.items():
    if 'OUT' not in hv:
        cnt['noparse'] += 1
        if cnt['noparse'] <= 3: print('NOPARSE', cid, hv, texts[cid])
        continue
    mv = m.get(cid, {}).get('MODEL')
    v = vlib.agree(hv['OUT'], mv)
    cnt[v] += 1
    cnt['impl:' + vlib.outcome_class(hv['OUT'])] += 1
    if v == 'oom': cnt[mv] += 1
    if v == 'diff' and shown < int(os.environ.get('SHOW', '6')):
        shown += 1
        print('--- DIFF', cid); print(texts[cid])
        a, b = vlib.nospacing(hv['OUT']), vlib.nospacing(mv or '')
        k = 0
        while k < min(len(a), len(b)) and a[k] == b[k]: k += 1
        print(' impl :', a[max(0, k - 200):k + 200]); print(' model:', b[max(0, k - 200):k + 200])
print(dict(cnt))
