#!/usr/bin/env python3
"""print OUT / MODEL / SEM of inputs given on stdin (separated by lines of ----)"""
import sys, os
sys.path.insert(0, os.path.dirname(os.path.abspath(__file__)))
import vlib
texts = [t.strip() for t in sys.stdin.read().split('\n----\n') if t.strip()]
cases = [('p-%d' % i, t) for i, t in enumerate(texts)]
wd = '/verif/build/tmp/probe'
be = os.environ.get('BE', 's1')
h = vlib.run_impl(cases, be, wd, flags=('--str',), tag='p')
m = vlib.run_model(wd, be, tag='p', with_str=True)
sh = vlib.run_shape(wd, be, tag='p')
for cid, t in cases:
    print('=====', cid); print(t)
    print(' OUT  :', vlib.nospacing(h.get(cid, {}).get('OUT') or 'None')[:int(os.environ.get('W', '3000'))])
    mv = m.get(cid, {}).get('MODEL')
    print(' agree:', vlib.agree(h.get(cid, {}).get('OUT'), mv) if h.get(cid, {}).get('OUT') else None)
    if os.environ.get('SEM'):
        print(' SEM  :', sh.get(cid, {}).get('SEM'))
