"""Per-property checks.  Every check:
  1 builds the harness(es) from /repo's working tree, regenerates coq/Gen, builds the Coq development,
    compiles coq/Props/<id>.v (theorems + Print Assumptions), runs the hygiene grep;
  2 runs the property's input sets through the implementation and the extracted model and compares them
    under the property's observation (the correspondence);
  3 runs the property's direct oracles on the implementation's own outcomes;
  4 decides (DESIGN.md 3.4) and writes evidence/<id>.json."""
import os, sys, re, json, time, random, collections, glob, subprocess, itertools
import vlib, gen, harvest
from vlib import log

SIZES = {
    'quick': {'comp': 6000, 'soup': 6000, 'procs': 6, 'extra': 4},
    'thorough': {'comp': 60000, 'soup': 80000, 'procs': 48, 'extra': 20},
}


class Ctx:
    def __init__(self, prop, tier, seed):
        self.prop = prop
        self.tier = tier
        self.seed = seed
        self.rng = random.Random(seed)
        self.sz = SIZES[tier]
        self.workdir = os.path.join(vlib.BUILD, 'tmp', prop)
        self.broken = []          # ties that no longer check: dicts kind/detail
        self.violations = []      # concrete failing inputs (not matched by a known finding)
        self.known_hits = collections.OrderedDict()   # finding id -> count
        self.cov = collections.OrderedDict()
        self.samples = []
        self.assumptions = []
        self.obligations = []     # (name, discharged?)
        self.disagreements = []   # correspondence: inputs where model and impl differ under obs
        self.known = vlib.load_known(prop)
        self.n_cases = 0
        self.distinct = set()
        self.oom = collections.Counter()
        self.classes = collections.Counter()
        self.sets = collections.OrderedDict()

    # ---------------------------------------------------------------- builds + proofs
    def build(self, backends=('s1',)):
        t = time.time()
        vlib.build_harness(backends)
        ok, msg, summary = vlib.translate()
        self.cov['translator'] = summary
        if not ok:
            self.broken.append({'kind': 'translator', 'detail': msg})
        ok, out = vlib.coq_make()
        if not ok:
            self.broken.append({'kind': 'proof', 'detail': 'coq build failed (a regenerated table, the model or a lemma no longer checks):\n' + out[-3000:]})
        bad = vlib.hygiene()
        if bad:
            self.broken.append({'kind': 'hygiene', 'detail': '\n'.join(bad)})
        pr = vlib.check_props(self.prop)
        self.props_result = pr
        for th in pr.get('theorems', []):
            self.obligations.append((th, pr['ok']))
        if not pr['ok']:
            self.broken.append({'kind': 'proof', 'detail': 'coq/Props/%s.v does not check or depends on axioms:\n%s' % (self.prop, pr.get('output', '')[-3000:])})
        ok, msg = vlib.build_driver()
        if not ok:
            raise vlib.BuildError(msg)
        self.cov['build_s'] = round(time.time() - t, 1)

    # ---------------------------------------------------------------- running inputs
    def run_set(self, name, items, obs=vlib.obs_full, backend='s1', flags=(), model=True):
        """items: list of gen.Item or (id, text, meta).  returns list of records"""
        cases = []
        metas = {}
        for i, it in enumerate(items):
            if isinstance(it, gen.Item):
                cid, text, meta = '%s-%d' % (name, i), it.render(), it.meta
                metas[cid] = (text, meta, it)
            else:
                cid, text, meta = it
                metas[cid] = (text, meta, None)
            cases.append((cid, text))
        h = vlib.run_impl(cases, backend, self.workdir, flags=flags, tag=name)
        m = vlib.run_model(self.workdir, backend, tag=name) if model else {}
        recs = []
        st = collections.Counter()
        for cid, text in cases:
            hv = h.get(cid, {})
            rec = {'id': cid, 'text': text, 'meta': metas[cid][1], 'item': metas[cid][2], 'out': hv.get('OUT'), 'raw': hv.get('RAW'),
                   'out2': hv.get('OUT2'), 'str': hv.get('STR'), 'model': m.get(cid, {}).get('MODEL')}
            if rec['out'] is None:
                st['unparsable_input'] += 1
                continue
            self.n_cases += 1
            self.distinct.add(hash(text))
            ic = vlib.outcome_class(rec['out'])
            st['impl_' + ic] += 1
            self.classes[ic] += 1
            if model:
                v = vlib.agree(rec['out'], rec['model'], obs)
                rec['agree'] = v
                st['agree_' + v] += 1
                if v == 'oom':
                    self.oom[rec['model']] += 1
                if v == 'diff':
                    self.disagreements.append(rec)
                if v != 'diff' and vlib.nospacing(rec['out']) == vlib.nospacing(rec['model'] or ''):
                    st['token_identical'] += 1
            recs.append(rec)
        self.sets[name] = dict(st)
        if recs and len(self.samples) < 6:
            r = recs[self.rng.randrange(len(recs))]
            self.samples.append({'set': name, 'input': r['text'][:600], 'impl_outcome': (r['out'] or '')[:300]})
        return recs

    # ---------------------------------------------------------------- findings
    def report(self, rec, why, oracle, key=None, extra=None):
        """a concrete input on which the property fails in the implementation"""
        for kf in self.known:
            if known_matches(kf, rec, why, key):
                self.known_hits[kf['id']] = self.known_hits.get(kf['id'], 0) + 1
                return False
        if len(self.violations) < 50:
            v = {'input': rec['text'], 'why': why, 'oracle': oracle, 'impl_outcome': (rec.get('out') or '')[:4000],
                 'model_outcome': (rec.get('model') or '')[:4000], 'key': key}
            if extra:
                v.update(extra)
            self.violations.append(v)
        return True

    # ---------------------------------------------------------------- verdict
    def finish(self, level='proof'):
        prop = self.prop
        if self.disagreements:
            d = self.disagreements
            self.broken.append({'kind': 'correspondence',
                                'detail': 'model and implementation differ under the observation of %s on %d generated inputs' % (prop, len(d)),
                                'inputs': [{'input': r['text'], 'impl': (r['out'] or '')[:1500], 'model': (r['model'] or '')[:1500]} for r in d[:10]]})
        nob = len(self.obligations)
        ndis = sum(1 for _, ok in self.obligations if ok)
        coverage = collections.OrderedDict()
        # obligations: the property's theorems + 'the model builds and extracts' + 'the correspondence holds on every generated input'
        coverage['obligations'] = nob + 2
        coverage['discharged'] = ndis + 1 + (0 if any(b['kind'] == 'correspondence' for b in self.broken) else 1)
        coverage['checker_cmd'] = 'cd coq && make (coq_makefile, full .vo) && coqc Props/%s.v ; correspondence: harness (cargo) + extracted model (ocamlfind ocamlopt)' % prop
        coverage['trusted_base'] = TRUSTED_BASE
        coverage['theorems'] = [t for t, _ in self.obligations]
        coverage['print_assumptions'] = {'closed': self.props_result.get('closed'), 'expected': self.props_result.get('print_assumptions'),
                                         'axioms': self.props_result.get('axioms')}
        coverage['evaluations'] = self.n_cases
        coverage['distinct_nontrivial'] = len(self.distinct)
        coverage['rule'] = 'distinct = distinct source text; every case is a derive input run through the implementation (and the extracted model); ' \
                           'grids enumerate the discrete cells named in DESIGN.md, composites/soup are seeded random'
        coverage['samples'] = self.samples[:6]
        coverage['input_sets'] = self.sets
        coverage['impl_outcome_classes'] = dict(self.classes)
        coverage['out_of_model'] = dict(self.oom)
        coverage['correspondence_disagreements'] = len(self.disagreements)
        coverage['known_findings_hit'] = dict(self.known_hits)
        coverage.update(self.cov)
        nviol = len(self.violations) + (1 if (self.broken and not self.violations) else 0)
        vlib.write_evidence(prop, self.tier, self.seed, level, coverage, self.assumptions or DEFAULT_ASSUMPTIONS, nviol)
        if self.violations:
            path = vlib.write_replay(prop, {'property': prop, 'seed': self.seed, 'tier': self.tier, 'violations': self.violations[:10],
                                            'broken_ties': self.broken})
            print('VIOLATION property=%s replay=%s' % (prop, path))
            for v in self.violations[:3]:
                log('  failing input:', v['why'], '\n', v['input'][:800])
            return 1
        if self.broken:
            path = vlib.write_replay(prop, {'property': prop, 'seed': self.seed, 'tier': self.tier, 'violations': [],
                                            'no_longer_checks': self.broken})
            print('VIOLATION property=%s replay=%s no-failing-input-found' % (prop, path))
            for b in self.broken[:3]:
                log('  broken tie:', b['kind'], b['detail'][:1500])
            return 1
        for kf in self.known:
            print('KNOWN-FINDING: property=%s %s %s' % (prop, kf['id'], kf['what']))
        log('%s %s: ok, %d cases, %.1fs' % (prop, self.tier, self.n_cases, time.time() - vlib.T0))
        return 0


def known_matches(kf, rec, why, key):
    m = kf.get('match', {})
    if 'key' in m:
        return key is not None and re.fullmatch(m['key'], key) is not None
    return False


TRUSTED_BASE = [
    'Coq 8.16.1 kernel (coqc, full .vo build); vm_compute used for finite table theorems; no native_compute',
    'no axioms: every theorem of coq/Props prints "Closed under the global context"',
    'tools/translate.py (regenerates coq/Gen/*.v from /repo source text)',
    'extraction: ExtrOcamlBasic + ExtrOcamlNativeString (their Extract Inductive/Constant directives only), ocaml/driver.ml',
    'harness/src/main.rs: syn parse of the item, serialisation of DeriveInput, canonical token printer; proc_macro2 fallback lexer',
    'modelled (not verified): all of o2o-impl via the hand-written Gallina model tied by the correspondence run; syn Path/Member/Index/WherePredicate parsing and printing (coq/Model/Syn.v)',
]
DEFAULT_ASSUMPTIONS = [
    'the Gallina model coq/Model/*.v stands for o2o-impl; the tie is the correspondence run of this check (token equality modulo punct spacing unless stated) plus the regenerated tables/skeletons',
    'inputs outside the interpreted grammar are answered OutOfModel by the model and counted (out_of_model), not compared',
]


# =====================================================================================================
# input sets
# =====================================================================================================
def corpus_cases(prop=None):
    cs = [(cid, text, {'set': 'repo-tests'}) for cid, text in harvest.harvest()]
    for d in sorted(glob.glob(os.path.join(vlib.VERIF, 'corpus', '*'))):
        for f in sorted(glob.glob(os.path.join(d, '*.rs'))):
            cs.append(('corpus/%s/%s' % (os.path.basename(d), os.path.basename(f)), open(f).read(), {'set': 'corpus'}))
    return cs


def sample(rng, items, n):
    if len(items) <= n:
        return items
    return rng.sample(items, n)


# =====================================================================================================
# oracles shared by several properties
# =====================================================================================================
def panic_key(rec):
    """identify a panic by the model's site when the model predicts it, else by what the payload tells"""
    payload = vlib.panic_payload(rec['out'])
    if rec.get('model') and vlib.outcome_class(rec['model']) == 'panic':
        return 'site:' + vlib.panic_payload(rec['model'])
    m = re.match(r'internal error: entered unreachable code: (\w+)$', payload)
    if m:
        return 'site:' + m.group(1)
    if payload == 'not yet implemented':
        return 'site:todo'
    return 'payload:' + payload


def oracle_no_panic(ctx, recs):
    n = 0
    for r in recs:
        if vlib.outcome_class(r['out']) == 'panic':
            n += 1
            ctx.report(r, 'expansion panicked: ' + vlib.panic_payload(r['out'])[:200], 'catch_unwind', key=panic_key(r))
    return n


# =====================================================================================================
# properties
# =====================================================================================================
def generic_sets(ctx, which, obs=vlib.obs_full):
    """run the named standard sets; returns all records"""
    recs = []
    q = ctx.tier == 'quick'
    for w in which:
        if w == 'corpus':
            recs += ctx.run_set('corpus', corpus_cases(), obs)
        elif w == 'struct_grid':
            recs += ctx.run_set('struct_grid', gen.grid_struct_lines(), obs)
        elif w == 'enum_grid':
            items = gen.grid_enum_lines(full=not q)
            recs += ctx.run_set('enum_grid', items, obs)
        elif w == 'vfield_grid':
            recs += ctx.run_set('vfield_grid', gen.grid_variant_fields(), obs)
        elif w == 'trait_grid':
            recs += ctx.run_set('trait_grid', gen.grid_trait_instrs(), obs)
        elif w == 'comp':
            recs += ctx.run_set('composites', gen.composites(ctx.rng, ctx.sz['comp']), obs)
        elif w == 'soup':
            recs += ctx.run_set('soup', gen.soup(ctx.rng, ctx.sz['soup']), obs)
        else:
            raise KeyError(w)
    return recs


def prop_generic(sets, obs=vlib.obs_full):
    def f(ctx):
        ctx.build()
        generic_sets(ctx, sets, obs)
        return ctx.finish()
    return f


def prop_C16(ctx):
    ctx.build()
    recs = generic_sets(ctx, ['corpus', 'struct_grid', 'enum_grid', 'vfield_grid', 'comp', 'soup'], vlib.obs_class)
    n = oracle_no_panic(ctx, recs)
    ctx.cov['panics_observed'] = n
    return ctx.finish()


def prop_C19(ctx):
    ctx.build()
    # multi-error and multi-group inputs come from composites and the struct grid; soup adds rejected inputs
    items = sample(ctx.rng, gen.grid_struct_lines(), 600) + gen.composites(ctx.rng, ctx.sz['comp'] // 3) + gen.soup(ctx.rng, ctx.sz['soup'] // 6)
    recs = ctx.run_set('determinism', items, vlib.obs_full, flags=('--twice',))
    cases = [(r['id'], r['text']) for r in recs]
    same_proc = 0
    for r in recs:
        if r['out2'] is not None and r['out2'] != r['out']:
            same_proc += 1
            ctx.report(r, 'two expansions of the same input in one process differ', 'in-process repeat', key='nondeterminism')
    # fresh processes: byte comparison of the whole rendered result
    inp = os.path.join(ctx.workdir, 'determinism.txt')
    outs = []
    procs = [subprocess.Popen([vlib.HARNESS['s1'], inp], stdout=subprocess.PIPE, stderr=subprocess.DEVNULL) for _ in range(ctx.sz['procs'])]
    for p in procs:
        outs.append(p.communicate()[0])
    ref = vlib.parse_lines(outs[0].decode(errors='surrogateescape'))
    ndiff = 0
    for o in outs[1:]:
        if o == outs[0]:
            continue
        other = vlib.parse_lines(o.decode(errors='surrogateescape'))
        for r in recs:
            a = ref.get(r['id'], {}).get('OUT')
            b = other.get(r['id'], {}).get('OUT')
            if a != b:
                ndiff += 1
                ctx.report(r, 'two fresh processes render different results', 'multi-process byte comparison', key='nondeterminism',
                           extra={'run_a': (a or '')[:1500], 'run_b': (b or '')[:1500]})
    ctx.cov['fresh_processes'] = ctx.sz['procs']
    ctx.cov['multi_message_inputs'] = sum(1 for r in recs if vlib.outcome_class(r['out']) == 'err' and len(vlib.err_msgs(r['out'])) > 2)
    ctx.cov['in_process_differences'] = same_proc
    ctx.cov['cross_process_differences'] = ndiff
    return ctx.finish()


ATTR_SYNTAX_MSGS = ['unexpected token', '#[name = "Value"] syntax is not supported.']


def o2o_message_templates():
    """every string literal of the o2o sources that is used as a diagnostic, as regexes ({} -> .*)"""
    pats = []
    for f in ('attr.rs', 'validate.rs', 'ast.rs', 'expand.rs'):
        src = open(os.path.join(vlib.REPO, 'o2o-impl/src', f)).read()
        for m in re.finditer(r'"((?:[^"\\]|\\.)*)"', src):
            s = m.group(1)
            if len(s) < 12 or ' ' not in s:
                continue
            s = s.replace('\\"', '"').replace("\\'", "'")
            rx = re.escape(s)
            rx = re.sub(r'\\\{\d*\\\}', '.*', rx)
            pats.append(re.compile(rx + '.*', re.S))
    return pats


def prop_C18(ctx):
    ctx.build(backends=('s1', 's2'))
    q = ctx.tier == 'quick'
    items = corpus_cases() + sample(ctx.rng, gen.grid_struct_lines(), 800 if q else 4000) + sample(ctx.rng, gen.grid_enum_lines(full=False), 800 if q else 4000) \
        + gen.grid_trait_instrs() + gen.composites(ctx.rng, ctx.sz['comp']) + gen.soup(ctx.rng, ctx.sz['soup']) + attr_shape_cases()
    named = []
    for i, it in enumerate(items):
        if isinstance(it, gen.Item):
            named.append(('b-%d' % i, it.render(), it.meta))
        else:
            named.append(it)
    r1 = ctx.run_set('backend_s1', named, vlib.obs_full, backend='s1')
    r2 = ctx.run_set('backend_s2', named, vlib.obs_full, backend='s2')
    tmpl = o2o_message_templates()
    by2 = {r['id']: r for r in r2}
    nd = 0
    for a in r1:
        b = by2.get(a['id'])
        if b is None:
            continue
        ca, cb = vlib.outcome_class(a['out']), vlib.outcome_class(b['out'])
        why = None
        if ca != cb:
            why = 'syn1 back-end: %s, syn2 back-end: %s' % (ca, cb)
        elif ca == 'ok' and a['out'] != b['out']:
            why = 'expansions are not token-identical between the back-ends'
        elif ca == 'err':
            def o2o_set(s):
                out = set()
                for m in vlib.err_msgs(s):
                    if m in ATTR_SYNTAX_MSGS:
                        out.add('<attribute-syntax>')
                    elif any(p.fullmatch(m) for p in tmpl):
                        out.add(m)
                return out
            sa, sb = o2o_set(a['out']), o2o_set(b['out'])
            if sa != sb:
                why = 'o2o diagnostics differ between the back-ends: %r vs %r' % (sorted(sa), sorted(sb))
        if why:
            nd += 1
            ctx.report(a, why, 'syn1 build vs syn2 build', key='backend-diff:' + ca + '/' + cb, extra={'syn2_outcome': (b['out'] or '')[:3000]})
    ctx.cov['backend_differences'] = nd
    return ctx.finish()


def attr_shape_cases():
    """attribute argument shapes around the cfg-split extraction: paren / brace / bracket / bare / name = value"""
    out = []
    names = ['map', 'into', 'ghosts', 'child_parents', 'where_clause', 'foo', 'o2o']
    mnames = ['map', 'ghost', 'child', 'parent', 'as_type', 'literal', 'repeat', 'foo', 'o2o']
    shapes = ['%s(A)', '%s{A}', '%s[A]', '%s', '%s = "A"', '%s = 1 + 2', '%s(A)(B)']
    i = 0
    for n in names:
        for sh in shapes:
            out.append(('shape-t-%d' % i, '#[map(B)]\n#[%s]\nstruct S { a: i32 }' % (sh % n), {'gen': 'attr_shape'}))
            i += 1
    for n in mnames:
        for sh in shapes:
            out.append(('shape-m-%d' % i, '#[map(B)]\nstruct S { #[%s] a: i32 }' % (sh % n), {'gen': 'attr_shape'}))
            out.append(('shape-v-%d' % i, '#[map(B)]\nenum E { #[%s] V }' % (sh % n), {'gen': 'attr_shape'}))
            i += 1
    return out


PROPS = {
    'C16': prop_C16,
    'C18': prop_C18,
    'C19': prop_C19,
}


def main(argv):
    if not argv:
        print('usage: check <property> [--tier quick|thorough]')
        return 2
    prop = argv[0]
    tier = os.environ.get('VERIF_TIER', 'quick')
    if '--tier' in argv:
        tier = argv[argv.index('--tier') + 1]
    seed = int(os.environ.get('VERIF_SEED', '20260926'))
    if prop not in PROPS:
        print('unknown property', prop)
        return 2
    ctx = Ctx(prop, tier, seed)
    try:
        return PROPS[prop](ctx)
    except vlib.BuildError as e:
        # the framework itself could not be built: not a verdict about the property
        log('BUILD ERROR:', str(e)[:4000])
        vlib.write_evidence(prop, tier, seed, 'proof', {'evaluations': 1, 'distinct_nontrivial': 0, 'obligations': 1, 'discharged': 0,
                            'checker_cmd': 'build failed', 'trusted_base': [], 'explanation': str(e)[:2000]}, [], 1)
        path = vlib.write_replay(prop, {'property': prop, 'build_error': str(e)[:6000]})
        print('VIOLATION property=%s replay=%s no-failing-input-found' % (prop, path))
        return 1
