"""Per-property checks.  Every check:
  1 builds the harness(es) from /repo's working tree, regenerates coq/Gen, builds the Coq development,
    compiles coq/Props/<id>.v (theorems + Print Assumptions), runs the hygiene grep;
  2 runs the property's input sets through the implementation and the extracted model and compares them
    under the property's observation (the correspondence);
  3 runs the property's direct oracles on the implementation's own outcomes;
  4 decides (DESIGN.md 3.4) and writes evidence/<id>.json."""
import os, sys, re, json, time, random, collections, glob, subprocess, itertools
import vlib, gen, harvest, oracles, vmcheck
from vlib import log

SIZES = {
    'quick': {'comp': 6000, 'soup': 6000, 'procs': 6, 'extra': 4},
    'thorough': {'comp': 60000, 'soup': 80000, 'procs': 48, 'extra': 20},
}


class Ctx:
    def __init__(self, prop, tier, seed):
        self.prop = prop
        self.tier = tier
        self.seed = seed
        self.rng = random.Random(seed)
        self.sz = SIZES[tier]
        self.workdir = os.path.join(vlib.BUILD, 'tmp', prop)
        self.broken = []          # ties that no longer check: dicts kind/detail
        self.violations = []      # concrete failing inputs (not matched by a known finding)
        self.known_hits = collections.OrderedDict()   # finding id -> count
        self.cov = collections.OrderedDict()
        self.samples = []
        self.assumptions = []
        self.obligations = []     # (name, discharged?)
        self.disagreements = []   # correspondence: inputs where model and impl differ under obs
        self.known = vlib.load_known(prop)
        self.n_cases = 0
        self.distinct = set()
        self.oom = collections.Counter()
        self.classes = collections.Counter()
        self.sets = collections.OrderedDict()
        self.vm_pool = []         # (case id, backend, RAW, MODEL) for the vm_compute cross-check of the extraction
        self.build_ok = True

    # ---------------------------------------------------------------- builds + proofs
    def build(self, backends=('s1',)):
        t = time.time()
        vlib.build_harness(backends)
        ok, msg, summary = vlib.translate()
        self.cov['translator'] = summary
        if not ok:
            self.broken.append({'kind': 'translator', 'detail': msg})
        # only this property's dependency cone (plus the model, which extraction needs): a broken obligation of
        # another property must not disturb this one
        targets = ['Model/Derive.vo']
        if os.path.exists(os.path.join(vlib.COQ, 'Props', self.prop + '.v')):
            targets.append('Props/%s.vo' % self.prop)
        ok, out = vlib.coq_make(targets)
        if not ok:
            self.build_ok = False
            self.broken.append({'kind': 'proof', 'detail': 'coq build failed (a regenerated table, the model or a lemma no longer checks):\n' + out[-3000:]})
        bad = vlib.hygiene()
        if bad:
            self.broken.append({'kind': 'hygiene', 'detail': '\n'.join(bad)})
        pr = vlib.check_props(self.prop)
        self.props_result = pr
        for th in pr.get('theorems', []):
            self.obligations.append((th, pr['ok']))
        if not pr['ok']:
            self.broken.append({'kind': 'proof', 'detail': 'coq/Props/%s.v does not check or depends on axioms:\n%s' % (self.prop, pr.get('output', '')[-3000:])})
        if self.tier == 'thorough' and pr['ok'] and self.build_ok:
            ck = vlib.coqchk(self.prop)
            self.cov['coqchk'] = ck
            if not ck['ok']:
                self.broken.append({'kind': 'proof', 'detail': 'coqchk (independent checker) does not accept Props/%s.vo and its dependencies, or reports axioms:\n%s' % (self.prop, ck.get('output', '')[-2000:])})
        ok, msg = vlib.build_driver()
        if not ok:
            raise vlib.BuildError(msg)
        self.cov['build_s'] = round(time.time() - t, 1)

    # ---------------------------------------------------------------- running inputs
    def run_set(self, name, items, obs=vlib.obs_full, backend='s1', flags=(), model=True, sem=False):
        """items: list of gen.Item or (id, text, meta).  returns list of records"""
        cases = []
        metas = {}
        for i, it in enumerate(items):
            if isinstance(it, gen.Item):
                cid, text, meta = '%s-%d' % (name, i), it.render(), it.meta
                metas[cid] = (text, meta, it)
            else:
                cid, text, meta = it
                metas[cid] = (text, meta, None)
            cases.append((cid, text))
        if sem and '--str' not in flags:
            flags = tuple(flags) + ('--str',)
        h = vlib.run_impl(cases, backend, self.workdir, flags=flags, tag=name)
        m = vlib.run_model(self.workdir, backend, tag=name, with_str=sem) if model else {}
        sh = vlib.run_shape(self.workdir, backend, tag=name) if sem else {}
        msh = vlib.run_shape(self.workdir, backend, tag=name, ext='.model') if (sem and model) else {}
        recs = []
        st = collections.Counter()
        for cid, text in cases:
            hv = h.get(cid, {})
            rec = {'id': cid, 'text': text, 'meta': metas[cid][1], 'item': metas[cid][2], 'out': hv.get('OUT'), 'raw': hv.get('RAW'),
                   'out2': hv.get('OUT2'), 'str': hv.get('STR'), 'model': m.get(cid, {}).get('MODEL'),
                   'shape': sh.get(cid, {}).get('SHAPE'), 'sem': sh.get(cid, {}).get('SEM'),
                   'mshape': msh.get(cid, {}).get('MSHAPE'), 'msem': msh.get(cid, {}).get('MSEM')}
            if rec['out'] is None:
                st['unparsable_input'] += 1
                continue
            if model and rec['raw'] and rec['model']:
                self.vm_pool.append((cid, backend, rec['raw'], rec['model']))
            self.n_cases += 1
            self.distinct.add(hash(text))
            ic = vlib.outcome_class(rec['out'])
            st['impl_' + ic] += 1
            self.classes[ic] += 1
            if model:
                v = vlib.agree(rec['out'], rec['model'], obs, rec)
                rec['agree'] = v
                st['agree_' + v] += 1
                if v == 'oom':
                    self.oom[rec['model']] += 1
                if v == 'diff':
                    self.disagreements.append(rec)
                if v != 'diff' and vlib.nospacing(rec['out']) == vlib.nospacing(rec['model'] or ''):
                    st['token_identical'] += 1
            recs.append(rec)
        self.sets[name] = dict(st)
        if recs and len(self.samples) < 6:
            r = recs[self.rng.randrange(len(recs))]
            self.samples.append({'set': name, 'input': r['text'][:600], 'impl_outcome': (r['out'] or '')[:300]})
        return recs

    # ---------------------------------------------------------------- findings
    def report(self, rec, why, oracle, key=None, extra=None):
        """a concrete input on which the property fails in the implementation"""
        for kf in self.known:
            if known_matches(kf, rec, why, key):
                self.known_hits[kf['id']] = self.known_hits.get(kf['id'], 0) + 1
                return False
        if len(self.violations) < 50:
            v = {'input': rec['text'], 'why': why, 'oracle': oracle, 'impl_outcome': (rec.get('out') or '')[:4000],
                 'model_outcome': (rec.get('model') or '')[:4000], 'key': key}
            if extra:
                v.update(extra)
            self.violations.append(v)
        return True

    # ---------------------------------------------------------------- verdict
    def finish(self, level='proof'):
        prop = self.prop
        if self.disagreements:
            d = self.disagreements
            self.broken.append({'kind': 'correspondence',
                                'detail': 'model and implementation differ under the observation of %s on %d generated inputs' % (prop, len(d)),
                                'inputs': [{'input': r['text'], 'impl': (r['out'] or '')[:1500], 'model': (r['model'] or '')[:1500]} for r in d[:10]]})
        # second evaluation route: a seeded shard of the cases goes through `coqc` (vm_compute), not through the extracted binary
        if self.build_ok and self.vm_pool:
            n = 150 if self.tier == 'quick' else 2400
            try:
                xc = vmcheck.crosscheck(self.vm_pool, os.path.join(self.workdir, 'vm'), n, self.seed)
            except Exception as e:
                xc = {'evaluated': 0, 'skipped': 0, 'mismatches': [], 'error': 'cross-check crashed: %r' % (e,)}
            self.cov['extraction_crosscheck'] = {k: (v if k != 'mismatches' else v[:10]) for k, v in xc.items()}
            if xc['mismatches'] or xc['error']:
                self.broken.append({'kind': 'extraction', 'detail': 'the extracted OCaml model and the model evaluated inside Coq (vm_compute) differ: trusted base broken, not the property. %s %s' % (xc['mismatches'][:10], xc['error'] or '')})
        nob = len(self.obligations)
        ndis = sum(1 for _, ok in self.obligations if ok)
        coverage = collections.OrderedDict()
        # obligations: the property's theorems + 'the model builds and extracts' + 'the correspondence holds on every generated input'
        coverage['obligations'] = nob + 2
        coverage['discharged'] = ndis + 1 + (0 if any(b['kind'] == 'correspondence' for b in self.broken) else 1)
        coverage['checker_cmd'] = 'cd coq && make (coq_makefile, full .vo) && coqc Props/%s.v ; correspondence: harness (cargo) + extracted model (ocamlfind ocamlopt)' % prop
        coverage['trusted_base'] = TRUSTED_BASE
        coverage['theorems'] = [t for t, _ in self.obligations]
        coverage['print_assumptions'] = {'closed': self.props_result.get('closed'), 'expected': self.props_result.get('print_assumptions'),
                                         'axioms': self.props_result.get('axioms')}
        coverage['evaluations'] = self.n_cases
        coverage['distinct_nontrivial'] = len(self.distinct)
        coverage['rule'] = 'distinct = distinct source text; every case is a derive input run through the implementation (and the extracted model); ' \
                           'grids enumerate the discrete cells named in DESIGN.md, composites/soup are seeded random'
        coverage['samples'] = self.samples[:6]
        coverage['input_sets'] = self.sets
        coverage['impl_outcome_classes'] = dict(self.classes)
        coverage['out_of_model'] = dict(self.oom)
        coverage['correspondence_disagreements'] = len(self.disagreements)
        coverage['known_findings_hit'] = dict(self.known_hits)
        coverage.update(self.cov)
        nviol = len(self.violations) + (1 if (self.broken and not self.violations) else 0)
        vlib.write_evidence(prop, self.tier, self.seed, level, coverage, self.assumptions or DEFAULT_ASSUMPTIONS, nviol)
        if self.violations:
            path = vlib.write_replay(prop, {'property': prop, 'seed': self.seed, 'tier': self.tier, 'violations': self.violations[:10],
                                            'broken_ties': self.broken})
            print('VIOLATION property=%s replay=%s' % (prop, path))
            for v in self.violations[:3]:
                log('  failing input:', v['why'], '\n', v['input'][:800])
            return 1
        if self.broken:
            path = vlib.write_replay(prop, {'property': prop, 'seed': self.seed, 'tier': self.tier, 'violations': [],
                                            'no_longer_checks': self.broken})
            print('VIOLATION property=%s replay=%s no-failing-input-found' % (prop, path))
            for b in self.broken[:3]:
                log('  broken tie:', b['kind'], b['detail'][:1500])
            return 1
        for kf in self.known:
            print('KNOWN-FINDING: property=%s %s %s' % (prop, kf['id'], kf['what']))
        log('%s %s: ok, %d cases, %.1fs' % (prop, self.tier, self.n_cases, time.time() - vlib.T0))
        return 0


def known_matches(kf, rec, why, key):
    m = kf.get('match', {})
    if 'key' in m:
        return key is not None and re.fullmatch(m['key'], key) is not None
    return False


TRUSTED_BASE = [
    'Coq 8.16.1 kernel (coqc, full .vo build); vm_compute used for finite table theorems; no native_compute',
    'no axioms: every theorem of coq/Props prints "Closed under the global context"',
    'tools/translate.py (regenerates coq/Gen/*.v from /repo source text)',
    'extraction: ExtrOcamlBasic + ExtrOcamlNativeString (their Extract Inductive/Constant directives only), ocaml/driver.ml',
    'harness/src/main.rs: syn parse of the item, serialisation of DeriveInput, canonical token printer; proc_macro2 fallback lexer',
    'modelled (not verified): all of o2o-impl via the hand-written Gallina model tied by the correspondence run; syn Path/Member/Index/WherePredicate parsing and printing (coq/Model/Syn.v)',
]
DEFAULT_ASSUMPTIONS = [
    'the Gallina model coq/Model/*.v stands for o2o-impl; the tie is the correspondence run of this check (token equality modulo punct spacing unless stated) plus the regenerated tables/skeletons',
    'inputs outside the interpreted grammar are answered OutOfModel by the model and counted (out_of_model), not compared',
]


# =====================================================================================================
# input sets
# =====================================================================================================
def corpus_cases(prop=None):
    cs = [(cid, text, {'set': 'repo-tests'}) for cid, text in harvest.harvest()]
    for d in sorted(glob.glob(os.path.join(vlib.VERIF, 'corpus', '*'))):
        for f in sorted(glob.glob(os.path.join(d, '*.rs'))):
            cs.append(('corpus/%s/%s' % (os.path.basename(d), os.path.basename(f)), open(f).read(), {'set': 'corpus'}))
    return cs


def sample(rng, items, n):
    if len(items) <= n:
        return items
    return rng.sample(items, n)


# =====================================================================================================
# oracles shared by several properties
# =====================================================================================================
def panic_key(rec):
    """identify a panic by the model's site when the model predicts it, else by what the payload tells"""
    payload = vlib.panic_payload(rec['out'])
    if rec.get('model') and vlib.outcome_class(rec['model']) == 'panic':
        return 'site:' + vlib.panic_payload(rec['model'])
    m = re.match(r'internal error: entered unreachable code: (\w+)$', payload)
    if m:
        return 'site:' + m.group(1)
    if payload == 'not yet implemented':
        return 'site:todo'
    return 'payload:' + payload


def oracle_no_panic(ctx, recs):
    n = 0
    for r in recs:
        if vlib.outcome_class(r['out']) == 'panic':
            n += 1
            ctx.report(r, 'expansion panicked: ' + vlib.panic_payload(r['out'])[:200], 'catch_unwind', key=panic_key(r))
    return n


# =====================================================================================================
# properties
# =====================================================================================================
def generic_sets(ctx, which, obs=vlib.obs_full):
    """run the named standard sets; returns all records"""
    recs = []
    q = ctx.tier == 'quick'
    for w in which:
        if w == 'corpus':
            recs += ctx.run_set('corpus', corpus_cases(), obs)
        elif w == 'struct_grid':
            recs += ctx.run_set('struct_grid', gen.grid_struct_lines(), obs)
        elif w == 'enum_grid':
            items = gen.grid_enum_lines(full=not q)
            recs += ctx.run_set('enum_grid', items, obs)
        elif w == 'vfield_grid':
            recs += ctx.run_set('vfield_grid', gen.grid_variant_fields(), obs)
        elif w == 'trait_grid':
            recs += ctx.run_set('trait_grid', gen.grid_trait_instrs(), obs)
        elif w == 'comp':
            recs += ctx.run_set('composites', gen.composites(ctx.rng, ctx.sz['comp']), obs)
        elif w == 'soup':
            recs += ctx.run_set('soup', gen.soup(ctx.rng, ctx.sz['soup']), obs)
        else:
            raise KeyError(w)
    return recs


def prop_generic(sets, obs=vlib.obs_full):
    def f(ctx):
        ctx.build()
        generic_sets(ctx, sets, obs)
        return ctx.finish()
    return f


def prop_C16(ctx):
    ctx.build()
    recs = generic_sets(ctx, ['corpus', 'struct_grid', 'enum_grid', 'vfield_grid', 'comp', 'soup'], vlib.obs_class)
    recs += ctx.run_set('odd_members', gen.odd_member_cases(ctx.rng, 4000 if ctx.tier == 'quick' else 40000), vlib.obs_class)
    recs += ctx.run_set('flattening', gen.c03_cases(ctx.rng, 1500 if ctx.tier == 'quick' else 15000) + gen.c03_hinted_cases(ctx.rng, 800 if ctx.tier == 'quick' else 8000),
                        vlib.obs_class)
    n = oracle_no_panic(ctx, recs)
    ctx.cov['panics_observed'] = n
    return ctx.finish()


def prop_C19(ctx):
    ctx.build()
    # multi-error and multi-group inputs come from composites and the struct grid; soup adds rejected inputs
    items = sample(ctx.rng, gen.grid_struct_lines(), 600) + gen.composites(ctx.rng, ctx.sz['comp'] // 3) + gen.soup(ctx.rng, ctx.sz['soup'] // 6) \
        + gen.c19_cases(ctx.rng, 600 if ctx.tier == 'quick' else 6000) + [p[0] for p in gen.c14_trait_cases(ctx.rng, 400 if ctx.tier == 'quick' else 4000)] \
        + [i for i in gen.c15_bases(ctx.rng, 100)] \
        + gen.c03_cases(ctx.rng, 500 if ctx.tier == 'quick' else 5000) + gen.c03_hinted_cases(ctx.rng, 400 if ctx.tier == 'quick' else 4000) \
        + gen.c02_cases(ctx.rng, 300 if ctx.tier == 'quick' else 3000)       # several groups / ghost-only child paths / ghost arms per input
    recs = ctx.run_set('determinism', items, vlib.obs_full, flags=('--twice',))
    recs += ctx.run_set('reserved_names', gen.reserved_name_cases(ctx.rng, 300 if ctx.tier == 'quick' else 3000), vlib.obs_full, flags=('--twice',))
    cases = [(r['id'], r['text']) for r in recs]
    same_proc = 0
    for r in recs:
        if r['out2'] is not None and r['out2'] != r['out']:
            same_proc += 1
            ctx.report(r, 'two expansions of the same input in one process differ', 'in-process repeat', key='nondeterminism')
    # fresh processes: byte comparison of the whole rendered result
    inp = os.path.join(ctx.workdir, 'determinism.txt')
    outs = []
    procs = [subprocess.Popen([vlib.HARNESS['s1'], inp], stdout=subprocess.PIPE, stderr=subprocess.DEVNULL) for _ in range(ctx.sz['procs'])]
    for p in procs:
        outs.append(p.communicate()[0])
    ref = vlib.parse_lines(outs[0].decode(errors='surrogateescape'))
    ndiff = 0
    for o in outs[1:]:
        if o == outs[0]:
            continue
        other = vlib.parse_lines(o.decode(errors='surrogateescape'))
        for r in recs:
            a = ref.get(r['id'], {}).get('OUT')
            b = other.get(r['id'], {}).get('OUT')
            if a != b:
                ndiff += 1
                ctx.report(r, 'two fresh processes render different results', 'multi-process byte comparison', key='nondeterminism',
                           extra={'run_a': (a or '')[:1500], 'run_b': (b or '')[:1500]})
    ctx.cov['fresh_processes'] = ctx.sz['procs']
    ctx.cov['multi_message_inputs'] = sum(1 for r in recs if vlib.outcome_class(r['out']) == 'err' and len(vlib.err_msgs(r['out'])) > 2)
    ctx.cov['in_process_differences'] = same_proc
    ctx.cov['cross_process_differences'] = ndiff
    return ctx.finish()


ATTR_SYNTAX_MSGS = ['unexpected token', '#[name = "Value"] syntax is not supported.']


def o2o_message_templates():
    """every string literal of the o2o sources that is used as a diagnostic, as regexes ({} -> .*)"""
    pats = []
    for f in ('attr.rs', 'validate.rs', 'ast.rs', 'expand.rs'):
        src = open(os.path.join(vlib.REPO, 'o2o-impl/src', f)).read()
        for m in re.finditer(r'"((?:[^"\\]|\\.)*)"', src):
            s = m.group(1)
            if len(s) < 12 or ' ' not in s:
                continue
            s = s.replace('\\"', '"').replace("\\'", "'")
            rx = re.escape(s)
            rx = re.sub(r'\\\{\d*\\\}', '.*', rx)
            pats.append(re.compile(rx + '.*', re.S))
    return pats


def prop_C18(ctx):
    ctx.build(backends=('s1', 's2'))
    q = ctx.tier == 'quick'
    saved_forms, gen.TREE_TYPE_FORMS = gen.TREE_TYPE_FORMS, gen.TREE_TYPE_FORMS_GENERIC
    items = corpus_cases() + sample(ctx.rng, gen.grid_struct_lines(), 800 if q else 4000) + sample(ctx.rng, gen.grid_enum_lines(full=False), 800 if q else 4000) \
        + gen.grid_trait_instrs() + gen.composites(ctx.rng, ctx.sz['comp']) + gen.soup(ctx.rng, ctx.sz['soup']) + attr_shape_cases() \
        + gen.c03_cases(ctx.rng, 1500 if q else 15000) + gen.c03_hinted_cases(ctx.rng, 500 if q else 5000) + gen.odd_member_cases(ctx.rng, 1500 if q else 15000) \
        + gen.c11_cases(ctx.rng, 500 if q else 5000)
    items += gen.trailing_commas(items, ctx.rng, 1500 if q else 15000) + gen.argless_under_switch(items, ctx.rng, 1000 if q else 10000)
    gen.TREE_TYPE_FORMS = saved_forms
    named = []
    for i, it in enumerate(items):
        if isinstance(it, gen.Item):
            named.append(('b-%d' % i, it.render(), it.meta))
        else:
            named.append(it)
    r1 = ctx.run_set('backend_s1', named, vlib.obs_full, backend='s1')
    r2 = ctx.run_set('backend_s2', named, vlib.obs_full, backend='s2')
    tmpl = o2o_message_templates()
    by2 = {r['id']: r for r in r2}
    nd = 0
    for a in r1:
        b = by2.get(a['id'])
        if b is None:
            continue
        ca, cb = vlib.outcome_class(a['out']), vlib.outcome_class(b['out'])
        why = None
        if ca != cb:
            why = 'syn1 back-end: %s, syn2 back-end: %s' % (ca, cb)
        elif ca == 'ok' and a['out'] != b['out']:
            why = 'expansions are not token-identical between the back-ends'
        elif ca == 'err':
            def o2o_set(s):
                # (o2o's templated diagnostics, was there an attribute-syntax / library parse error).  `unexpected token` is both o2o's
                # own diagnostic (syn 2 branch: a bare attribute with a brace / bracket list, which the syn 1 branch reports through syn's
                # parser) and syn's wording for its own parse errors, so the two are one class: "the attribute text does not parse"
                out, syntax = set(), False
                for m in vlib.err_msgs(s):
                    if m is None or m in ATTR_SYNTAX_MSGS or m.startswith('unexpected token'):
                        syntax = True
                    elif any(p.fullmatch(m) for p in tmpl):
                        out.add(m)
                    else:
                        syntax = True          # library wording
                return out | ({'<attribute-syntax>'} if syntax else set())
            sa, sb = o2o_set(a['out']), o2o_set(b['out'])
            if sa != sb:
                why = 'o2o diagnostics differ between the back-ends: %r vs %r' % (sorted(sa), sorted(sb))
        if why:
            nd += 1
            ctx.report(a, why, 'syn1 build vs syn2 build', key='backend-diff:' + ca + '/' + cb, extra={'syn2_outcome': (b['out'] or '')[:3000]})
    ctx.cov['backend_differences'] = nd
    return ctx.finish()


def attr_shape_cases():
    """attribute argument shapes around the cfg-split extraction: paren / brace / bracket / bare / name = value"""
    out = []
    names = ['map', 'into', 'ghosts', 'child_parents', 'where_clause', 'foo', 'o2o']
    mnames = ['map', 'ghost', 'child', 'parent', 'as_type', 'literal', 'repeat', 'foo', 'o2o']
    shapes = ['%s(A)', '%s{A}', '%s[A]', '%s', '%s = "A"', '%s = 1 + 2', '%s(A)(B)']
    i = 0
    for n in names:
        for sh in shapes:
            out.append(('shape-t-%d' % i, '#[map(B)]\n#[%s]\nstruct S { a: i32 }' % (sh % n), {'gen': 'attr_shape'}))
            i += 1
    for n in mnames:
        for sh in shapes:
            out.append(('shape-m-%d' % i, '#[map(B)]\nstruct S { #[%s] a: i32 }' % (sh % n), {'gen': 'attr_shape'}))
            out.append(('shape-v-%d' % i, '#[map(B)]\nenum E { #[%s] V }' % (sh % n), {'gen': 'attr_shape'}))
            i += 1
    return out



# ---------------------------------------------------------------------------------------------- C04
def prop_C04(ctx):
    ctx.build()
    q = ctx.tier == 'quick'
    items = gen.grid_trait_instrs() + gen.multi_trait_items(ctx.rng, 1500 if q else 12000) + gen.c04_repeat_items(ctx.rng, 800 if q else 8000)
    recs = ctx.run_set('trait_grid', items, vlib.obs_headers)
    recs += ctx.run_set('corpus', corpus_cases(), vlib.obs_headers)
    comp = ctx.run_set('composites', gen.composites(ctx.rng, ctx.sz['comp'] // 2), vlib.obs_headers)
    n_chk = 0
    perm_items = []
    for r in recs + comp:
        it = r.get('item')
        if it is None:
            continue
        if any(isinstance(a, gen.Group) or (a.name in gen.TRAIT_NAMES and not hasattr(a, 'cp')) or a.name == 'o2o' for a in it.attrs):
            continue
        if vlib.outcome_class(r['out']) == 'err':
            # one impl per (kind, fallibility, counterpart) requested: instructions are duplicates only if they request the same triple
            exp = oracles.expected_headers(it)
            triples = [e[:3] for e in exp]
            if 'Ident here must be unique.' in [m for m in vlib.err_msgs(r['out']) if m] and len(set(triples)) == len(triples):
                ctx.report(r, 'instructions requesting pairwise different (kind, fallibility, counterpart) impls are rejected as duplicates: none of the %d '
                           'documented impls is generated' % len(exp), 'README table vs verdict', key='rejected-distinct')
            continue
        if vlib.outcome_class(r['out']) != 'ok':
            continue
        exp = oracles.expected_headers(it)
        act = oracles.actual_headers(r['out'])
        n_chk += 1
        if act != exp:
            ctx.report(r, 'generated impl headers differ from the documented set: expected %r, got %r' % (exp, act), 'README table vs impl headers',
                       key='headers')
        if len([a for a in it.attrs if a.name in gen.TRAIT_NAMES]) > 1 and len(perm_items) < (400 if q else 3000) and not gen.uses_repeat(it):
            it2 = it.clone()
            ctx.rng.shuffle(it2.attrs)
            it2.meta = dict(it.meta, perm_of=r['id'])
            perm_items.append((it2, r))
    ctx.cov['headers_checked'] = n_chk
    # order independence: the same instructions in another order give the same header multiset
    if perm_items:
        precs = ctx.run_set('permuted', [x[0] for x in perm_items], vlib.obs_headers)
        nperm = 0
        for pr, (_, orig) in zip(precs, perm_items):
            if vlib.outcome_class(pr['out']) != 'ok':
                # a permutation may legitimately be rejected only if the original was (it was accepted)
                ctx.report(pr, 'reordering the instructions changed the accept/reject decision', 'permute instructions', key='order-verdict')
                continue
            nperm += 1
            if oracles.actual_headers(pr['out']) != oracles.actual_headers(orig['out']):
                ctx.report(pr, 'reordering the trait instructions changed the set of impls', 'permute instructions', key='order')
        ctx.cov['permutations_checked'] = nperm
    return ctx.finish()


# ---------------------------------------------------------------------------------------------- C20
def obs_C20(s, rec=None):
    """identifiers and `::`-rooted paths of the output that come neither from the input nor from the allow-list"""
    if vlib.outcome_class(s) != 'ok':
        return (vlib.outcome_class(s),)
    return ('ok', tuple(sorted(oracles.foreign_idents(s, rec['text']))),
            tuple(sorted(set(p[:2] for p in oracles.rooted_paths(vlib.ok_tokens(s))))))


def prop_C20(ctx):
    ctx.build()
    recs = generic_sets(ctx, ['corpus', 'struct_grid', 'enum_grid', 'vfield_grid', 'trait_grid', 'comp'], obs_C20)
    recs += ctx.run_set('flatten', gen.c03_cases(ctx.rng, 600 if ctx.tier == 'quick' else 5000), obs_C20)
    k20 = 1 if ctx.tier == 'quick' else 8
    recs += ctx.run_set('literal_pattern', gen.c09_cases(ctx.rng, 1500 * k20), obs_C20)
    recs += ctx.run_set('params', gen.c08_cases(ctx.rng, 1200 * k20), obs_C20)
    recs += ctx.run_set('generics', gen.c11_cases(ctx.rng, 800 * k20), obs_C20)
    recs += ctx.run_set('flavours', gen.c07_cases(ctx.rng, 600 * k20) + gen.c07_parent_cases(ctx.rng, 300 * k20), obs_C20)
    recs += ctx.run_set('members', gen.c01_cases(ctx.rng, 800 * k20), obs_C20)      # as_type casts between float and integer types among them
    n = 0
    for r in recs:
        if vlib.outcome_class(r['out']) != 'ok':
            continue
        n += 1
        bad = oracles.foreign_idents(r['out'], r['text'])
        if bad:
            ctx.report(r, 'generated code uses identifiers that are neither the user\'s nor core/o2o::traits names: %s' % sorted(bad), 'identifier scan', key='ident')
        for pth in oracles.rooted_paths(vlib.ok_tokens(r['out'])):
            if pth[:2] not in (('core', 'convert'), ('core', 'result')) and '::' + pth[0] not in r['text'].replace(' ', ''):
                ctx.report(r, 'generated code names a library path outside ::core::convert / ::core::result: ::%s' % '::'.join(pth), 'path scan', key='path')
    ctx.cov['accepted_outputs_scanned'] = n
    return ctx.finish()


# ---------------------------------------------------------------------------------------------- metamorphic helpers
def relate(a, b, compare):
    """None when outcome b stands in the property's relation to outcome a, else a short reason"""
    ca, cb = vlib.outcome_class(a), vlib.outcome_class(b)
    if ca != cb:
        return 'verdict changed (%s -> %s)' % (ca, cb)
    if ca == 'ok':
        if compare == 'multiset':
            ia = sorted(vlib.toks_text(i) for i in vlib.split_impls(vlib.ok_tokens(a)))
            ib = sorted(vlib.toks_text(i) for i in vlib.split_impls(vlib.ok_tokens(b)))
            if ia != ib:
                return 'generated impls differ'
        elif compare != 'verdict-only' and vlib.nospacing(a) != vlib.nospacing(b):
            return 'generated code differs'
    elif ca == 'err' and compare == 'msgs':
        ma, mb = vlib.err_msgs(a), vlib.err_msgs(b)
        if sorted(x or '#lib' for x in ma) != sorted(x or '#lib' for x in mb):
            return 'diagnostics differ'
    return None


def metamorphic(ctx, name, pairs, why, oracle, key, compare='tokens'):
    """pairs: list of (orig record, transformed Item).  Expands the transformed inputs with the implementation
    (and the model) and compares each with its original under the property's relation.  The observation used
    for the model/implementation tie is the relation itself: the model (by the theorem) predicts that it holds."""
    if not pairs:
        return 0
    trecs = ctx.run_set(name, [p[1] for p in pairs], vlib.obs_none)
    n = 0
    for tr, (orig, _) in zip(trecs, pairs):
        n += 1
        bad = relate(orig['out'], tr['out'], compare)
        if bad:
            ctx.report(tr, '%s: %s' % (why, bad), oracle, key=key, extra={'original_input': orig['text'], 'original_outcome': (orig['out'] or '')[:3000]})
        elif orig.get('model') and tr.get('model') and vlib.outcome_class(orig['model']) not in ('oom', 'driver-error') \
                and vlib.outcome_class(tr['model']) not in ('oom', 'driver-error'):
            mbad = relate(orig['model'], tr['model'], 'verdict-only' if compare == 'msgs' and vlib.outcome_class(orig['model']) == 'err' else compare)
            if mbad:
                tr2 = dict(tr)
                tr2['agree'] = 'diff'
                ctx.disagreements.append(tr2)
    return n


# ---------------------------------------------------------------------------------------------- C12
def prop_C12(ctx):
    ctx.build()
    q = ctx.tier == 'quick'
    base = sample(ctx.rng, gen.grid_struct_lines(names=gen.TRAIT_NAMES), 1500 if q else 12000) \
        + sample(ctx.rng, gen.grid_enum_lines(names=gen.TRAIT_NAMES, full=False), 1500 if q else 12000) \
        + sample(ctx.rng, gen.grid_variant_fields(names=gen.TRAIT_NAMES), 800 if q else 6000) \
        + gen.grid_trait_instrs() + gen.composites(ctx.rng, ctx.sz['comp']) + gen.shortcut_items(ctx.rng, 800 if q else 6000)
    base = [it for it in base if gen.has_shortcut(it) and not gen.uses_repeat(it)]
    recs = ctx.run_set('shortcuts', base, vlib.obs_none)
    pairs = [(r, gen.expand_shortcuts(r['item'])) for r in recs if r.get('item') is not None]
    n = metamorphic(ctx, 'written_out', pairs, 'writing the shortcut out as the basic instructions it abbreviates', 'shortcut vs basics, both expanded by the implementation',
                    'shortcut', compare='multiset')
    ctx.cov['shortcut_pairs_compared'] = n
    return ctx.finish()


# ---------------------------------------------------------------------------------------------- C13
def prop_C13(ctx):
    ctx.build()
    q = ctx.tier == 'quick'
    gen.BARE_FORMS = bare_forms()
    base = sample(ctx.rng, gen.grid_struct_lines(), 1000 if q else 8000) + sample(ctx.rng, gen.grid_enum_lines(full=False), 1000 if q else 8000) \
        + sample(ctx.rng, gen.grid_variant_fields(), 600 if q else 5000) + sample(ctx.rng, gen.grid_trait_instrs(), 400 if q else 1440) \
        + gen.composites(ctx.rng, ctx.sz['comp']) + gen.c03_cases(ctx.rng, 300 if q else 3000)
    recs = ctx.run_set('bare', base, vlib.obs_none)
    total = 0
    for mode in ('each', 'group', 'mix'):
        pairs = []
        for r in recs:
            it = r.get('item')
            if it is None:
                continue
            # only instructions that have a bare form AT THEIR LEVEL are in the property's scope
            if not gen.all_bare_valid(it):
                continue
            t = gen.respell(it, ctx.rng, mode)
            if t.render() != r['text']:
                pairs.append((r, t))
        total += metamorphic(ctx, 'respelled_' + mode, pairs, 'rewriting bare instructions as #[o2o(..)] (%s)' % mode,
                             'bare vs #[o2o(..)] spelling, both expanded by the implementation', 'spelling', compare='msgs')
    # the same instruction with and without an (empty) argument list: `x` vs `x()`, bare or inside #[o2o(..)]
    pairs = []
    for r in recs:
        it = r.get('item')
        if it is None:
            continue
        t = gen.toggle_parens(it)
        if t is not None and t.render() != r['text']:
            pairs.append((r, t))
    total += metamorphic(ctx, 'optional_parentheses', pairs, 'writing an argument-less instruction with / without an empty argument list',
                         '`x` vs `x()` spelling, both expanded by the implementation', 'spelling', compare='msgs')
    ctx.cov['respelled_pairs_compared'] = total
    return ctx.finish()


def bare_forms():
    src = open(os.path.join(vlib.REPO, 'o2o-macros/src/lib.rs')).read()
    m = re.search(r'attributes\s*\((.*?)\)\s*\)\s*\]', src, flags=re.S)
    names = re.findall(r'\b([a-z_0-9]+)\b', re.sub(r'//[^\n]*', '', m.group(1))) if m else []
    return set(names)


# ---------------------------------------------------------------------------------------------- C10
def c10_sites(out, it):
    """per impl of the outcome: is the expected substituted token sequence present, contiguously? (None: no expression there)"""
    exp = it.meta.get('expect') if it is not None else None
    res = []
    if not exp or vlib.outcome_class(out) != 'ok':
        return res
    for imp in vlib.split_impls(vlib.ok_tokens(out)):
        hdr = vlib.header_of(imp)
        from_side = ' From <' in hdr or ' TryFrom <' in hdr
        want = exp['from'] if from_side else exp['into']
        res.append((hdr, want, None if want is None else contains_seq(vlib.flatten(imp), want)))
    return res


def obs_C10(s, rec=None):
    c = vlib.outcome_class(s)
    if c != 'ok':
        return vlib.obs_msgs(s)
    it = rec.get('item')
    if it is not None and it.meta.get('expect') == {'from': None, 'into': None}:
        return ('ok', vlib.nospacing(s))          # no expectation (e.g. `~` where no member exists): the whole output is observed
    return ('ok', tuple((h, ok) for h, _, ok in c10_sites(s, it)))


def prop_C10(ctx):
    ctx.build()
    q = ctx.tier == 'quick'
    items = gen.c10_cases(ctx.rng, 3000 if q else 30000)
    recs = ctx.run_set('expressions', items, obs_C10)
    n = 0
    for r in recs:
        it = r['item']
        if vlib.outcome_class(r['out']) != 'ok':
            continue
        for hdr, want, ok in c10_sites(r['out'], it):
            if want is None:
                continue
            n += 1
            if not ok:
                ctx.report(r, 'the substituted expression does not reach the generated code unchanged and in order: expected the contiguous tokens %r in the impl `%s`'
                           % (' '.join(want), hdr[:120]), 'flattened token search', key='subst',
                           extra={'expected_tokens': want})
    ctx.cov['expression_sites_checked'] = n
    return ctx.finish()


def contains_seq(hay, needle):
    n, m = len(hay), len(needle)
    if m == 0:
        return True
    first = needle[0]
    for i in range(n - m + 1):
        if hay[i] == first and hay[i:i + m] == needle:
            return True
    return False


# ---------------------------------------------------------------------------------------------- C05
def impls_by_header(out):
    d = {}
    for imp in vlib.split_impls(vlib.ok_tokens(out)):
        d[vlib.header_of(imp)] = vlib.toks_text(imp)
    return d


def prop_C05(ctx):
    ctx.build()
    q = ctx.tier == 'quick'
    forms = gen.c05_forms()
    combos = [()] + [(f,) for f in forms]
    pairs = [(f, g) for f in forms for g in forms]
    pairs = sample(ctx.rng, pairs, 1800 if q else 14000)
    triples = [tuple(ctx.rng.choice(forms) for _ in range(ctx.rng.choice([3, 3, 4]))) for _ in range(300 if q else 6000)]
    for shape, mk in (('named', lambda fs: gen.c05_item(fs, 'named')), ('tuple', lambda fs: gen.c05_item(fs, 'tuple')), ('variant', gen.c05_variant_item)):
        sel = combos + (pairs if shape == 'named' or not q else sample(ctx.rng, pairs, 700)) + (triples if shape == 'named' else triples[:len(triples) // 4])
        items = [mk(list(fs)) for fs in sel]
        recs = ctx.run_set('chain_' + shape, items, vlib.obs_full)
        base = {}
        for r in recs:
            if len(r['item'].meta['forms']) <= 1 and vlib.outcome_class(r['out']) == 'ok':
                base[tuple(r['item'].meta['forms'])] = impls_by_header(r['out'])
        nctx = 0
        for r in recs:
            fs = r['item'].meta['forms']
            if len(fs) < 2 or vlib.outcome_class(r['out']) != 'ok':
                continue
            attrs = [gen.c05_attr(f, i + 1, r['item'].meta['shape'] != 'tuple') for i, f in enumerate(fs)]
            got = impls_by_header(r['out'])
            for hdr, text in got.items():
                kfc = oracles.header_context(hdr)
                if kfc is None:
                    continue
                kind, fallible, cp = kfc
                w = oracles.winner(attrs, kind, fallible, cp)
                ref_forms = (fs[w],) if w is not None else ()
                ref = base.get(tuple(ref_forms), {}).get(hdr)
                if ref is None:
                    continue
                nctx += 1
                # the winner's marker number differs between the single-instruction item (always 1) and this one: normalise
                want = ref.replace('e1', 'e%d' % (w + 1)).replace('g1', 'g%d' % (w + 1)).replace('Ty1', 'Ty%d' % (w + 1)).replace('m1', 'm%d' % (w + 1)) if w is not None else ref
                if text != want:
                    ctx.report(r, 'conversion (%s, fallible=%s, %s): the instruction that should take effect is %s, but the impl is not the one generated '
                               'when only that instruction is present' % (kind, fallible, cp, ('#%d %s' % (w + 1, attrs[w].render())) if w is not None else 'none'),
                               'most-specific-instruction rule vs implementation, impl by impl', key='chain',
                               extra={'impl_got': text[:1500], 'impl_expected': want[:1500]})
        ctx.cov['contexts_checked_' + shape] = nctx
    # argument-less instructions (`#[into]`, `#[into()]`, `#[into(A| )]`) take part in the chain like any other (into side only: under
    # From an instruction with neither member nor expression is finding F-16i)
    iforms = gen.c05_into_forms()
    isel = [()] + [(f,) for f in iforms] + [(f, g) for f in iforms for g in iforms if f[2] or g[2]]
    if q:
        isel = isel[:1 + len(iforms)] + sample(ctx.rng, isel[1 + len(iforms):], 1200)
    built = [gen.c05_into_item(list(fs)) for fs in isel]
    recs = ctx.run_set('chain_argumentless', [b[0] for b in built], vlib.obs_full)
    base = {}
    for r in recs:
        if len(r['item'].meta['forms']) <= 1 and vlib.outcome_class(r['out']) == 'ok':
            base[tuple(r['item'].meta['forms'])] = impls_by_header(r['out'])
    nctx = 0
    for r, (_, attrs) in zip(recs, built):
        fs = r['item'].meta['forms']
        if len(fs) < 2 or vlib.outcome_class(r['out']) != 'ok':
            continue
        for hdr, text in impls_by_header(r['out']).items():
            kfc = oracles.header_context(hdr)
            if kfc is None:
                continue
            kind, fallible, cp = kfc
            w = oracles.winner(attrs, kind, fallible, cp)
            ref = base.get((fs[w],) if w is not None else (), {}).get(hdr)
            if ref is None:
                continue
            nctx += 1
            want = ref.replace('e1', 'e%d' % (w + 1)) if w is not None else ref
            if text != want:
                ctx.report(r, 'conversion (%s, fallible=%s, %s): the instruction that should take effect is %s, but the impl is not the one generated '
                           'when only that instruction is present' % (kind, fallible, cp, ('#%d %s' % (w + 1, attrs[w].render())) if w is not None else 'none'),
                           'most-specific-instruction rule vs implementation, impl by impl', key='chain-argumentless',
                           extra={'impl_got': text[:1500], 'impl_expected': want[:1500]})
    ctx.cov['contexts_checked_argumentless'] = nctx
    # the same rule one level down (ParentChildField::get_for_kind): the instruction of exactly the kind, else (into_existing) the into one
    names = gen.NESTED_MAP_NAMES
    sel = [()] + [(a,) for a in names] + [(a, b) for a in names for b in names] + \
        [tuple(ctx.rng.choice(names) for _ in range(3)) for _ in range(150 if q else 1500)]
    recs = ctx.run_set('chain_nested_parent', [gen.c05_pcf_item(fs) for fs in sel], vlib.obs_full)
    base = {}
    for r in recs:
        if len(r['item'].meta['forms']) <= 1 and vlib.outcome_class(r['out']) == 'ok':
            base[tuple(r['item'].meta['forms'])] = impls_by_header(r['out'])
    nctx = 0
    for r in recs:
        fs = r['item'].meta['forms']
        if len(fs) < 2 or vlib.outcome_class(r['out']) != 'ok':
            continue
        for hdr, text in impls_by_header(r['out']).items():
            kfc = oracles.header_context(hdr)
            if kfc is None:
                continue
            kind, fallible, cp = kfc
            w = None
            for k in [kind] + ([kind.replace('_existing', '')] if kind.endswith('_existing') else []):
                for i, nm in enumerate(fs):
                    if (k, False) in oracles.instr_kinds(nm):
                        w = i
                        break
                if w is not None:
                    break
            ref = base.get((fs[w],) if w is not None else (), {}).get(hdr)
            if ref is None:
                continue
            nctx += 1
            want = ref.replace('e1', 'e%d' % (w + 1)).replace('m1', 'm%d' % (w + 1)) if w is not None else ref
            if text != want:
                ctx.report(r, 'conversion (%s, fallible=%s, %s): inside #[parent(..)] the instruction that should take effect is %s, but the impl is not the one generated '
                           'when only that instruction is present' % (kind, fallible, cp, ('#%d [%s(..)]' % (w + 1, fs[w])) if w is not None else 'none'),
                           'most-specific-instruction rule vs implementation, impl by impl', key='chain-nested',
                           extra={'impl_got': text[:1500], 'impl_expected': want[:1500]})
    ctx.cov['contexts_checked_nested_parent'] = nctx
    return ctx.finish()


# ---------------------------------------------------------------------------------------------- C06
def prop_C06(ctx):
    ctx.build()
    q = ctx.tier == 'quick'
    base = gen.composites(ctx.rng, ctx.sz['comp'] * 2) + gen.c06_cases(ctx.rng, 2500 if q else 25000)
    base = [it for it in base if len(set(oracles.norm_ty(a.cp) for a in it.attrs if isinstance(a, gen.Attr) and a.name in gen.TRAIT_NAMES and hasattr(a, 'cp'))) >= 2
            and not any(isinstance(a, gen.Group) for lst in gen.all_attr_lists(it) for a in lst) and not gen.uses_repeat(it)]
    recs = ctx.run_set('joint', base, vlib.obs_none)
    pitems, porig = [], []
    for r in recs:
        if vlib.outcome_class(r['out']) != 'ok':
            continue
        it = r['item']
        for cp in sorted(set(oracles.norm_ty(a.cp) for a in it.attrs if a.name in gen.TRAIT_NAMES and hasattr(a, 'cp'))):
            p = oracles.project(it, cp)
            p.meta = dict(it.meta, projected_to=cp)
            pitems.append(p)
            porig.append((r, cp))
    precs = ctx.run_set('projected', pitems, vlib.obs_none)
    n = 0
    for pr, (orig, cp) in zip(precs, porig):
        n += 1
        want = [t for h, t in oracles.impls_for(orig['out'], cp) if oracles.header_counterpart(h) == cp]
        if vlib.outcome_class(pr['out']) != 'ok':
            # the projection may legitimately be rejected/panic only if ... never: it is a sub-configuration of an accepted input,
            # but rejection of the projection is a statement about validation, not about leaking; it is reported separately
            ctx.cov['projection_not_accepted'] = ctx.cov.get('projection_not_accepted', 0) + 1
            continue
        got = [t for h, t in oracles.impls_for(pr['out'], cp)]
        if got != want:
            ctx.report(pr, 'the impls for counterpart %s differ between the joint input and the input with every instruction concerning the other '
                       'counterparts removed' % cp, 'joint vs projected input, both expanded by the implementation', key='leak',
                       extra={'joint_input': orig['text'], 'impls_joint': want[:4], 'impls_projected': got[:4]})
        elif orig.get('model') and pr.get('model') and vlib.outcome_class(orig['model']) == 'ok' and vlib.outcome_class(pr['model']) == 'ok':
            mw = [t for h, t in oracles.impls_for(orig['model'], cp) if oracles.header_counterpart(h) == cp]
            mg = [t for h, t in oracles.impls_for(pr['model'], cp)]
            if mw != mg:
                d = dict(pr)
                ctx.disagreements.append(d)
    ctx.cov['projections_compared'] = n
    return ctx.finish()


# ---------------------------------------------------------------------------------------------- C14
def prop_C14(ctx):
    ctx.build()
    q = ctx.tier == 'quick'
    mp = gen.c14_member_cases(ctx.rng, 4000 if q else 40000)
    tp = gen.c14_trait_cases(ctx.rng, 3000 if q else 30000)
    total = 0
    for name, pairs in (('member_repeat', mp), ('trait_repeat', tp)):
        recs = ctx.run_set(name, [p[0] for p in pairs], vlib.obs_none)
        keep = [(r, p[1]) for r, p in zip(recs, pairs)]
        total += metamorphic(ctx, name + '_written_out', keep, 'writing the repeated instructions out', 'repeat vs written-out form, both expanded by the implementation',
                             'repeat', compare='msgs')
        ctx.cov[name + '_with_active_block'] = sum(1 for p in pairs if p[0].render() != p[1].render())
    ctx.cov['repeat_pairs_compared'] = total
    return ctx.finish()


# ---------------------------------------------------------------------------------------------- C15
def prop_C15(ctx):
    ctx.build()
    q = ctx.tier == 'quick'
    bases = gen.c15_bases(ctx.rng, 400 if q else 3000)
    brecs = ctx.run_set('valid_bases', bases, vlib.obs_msgs)
    ok_bases = []
    for r in brecs:
        if vlib.outcome_class(r['out']) == 'ok':
            ok_bases.append(r['item'])
        else:
            ctx.report(r, 'an input that breaks none of the documented rules is rejected: %s' % (r['out'] or '')[:300], 'valid-by-construction input', key='false-reject')
    inj = gen.c15_injectors()
    singles = []
    for b in ok_bases:
        for cls, name, f in inj:
            it0 = b.clone()
            it0.pos = ''
            res = f(it0, ctx.rng)
            if res is None:
                continue
            it, rx = res
            it.meta = dict(b.meta, fault=name, faults=[(name, cls, rx, getattr(it, 'pos', ''))])
            singles.append(it)
    if q:
        singles = sample(ctx.rng, singles, 5000)
    CHILD_GROUP = {'child_without_child_parents', 'child_path_missing_in_child_parents', 'child_path_only_in_shadowed_child_parents', 'duplicate_default_type_level', 'duplicate_dedicated_type_level',
                   'unknown_counterpart_type_level'}
    REBUILDERS = {'untyped_nested_parent', 'unnamed_nested_member', 'trait_repeat_not_terminated', 'trait_repeat_overrides', 'parameter_set_twice',
                  'unsupported_repeat_type', 'missing_error_type', 'superfluous_error_type', 'tuple_to_named_without_names', 'duplicate_instruction',
                  'no_trait_instruction', 'duplicate_default_parent'}
    pairs = []
    for _ in range(2500 if q else 30000):
        b = ctx.rng.choice(ok_bases)
        (c1, n1, f1), (c2, n2, f2) = ctx.rng.sample(inj, 2)
        # the second injection must not undo or rewrite what the first one put in place
        if (n1 in CHILD_GROUP and n2 in CHILD_GROUP) or n2 in REBUILDERS or n1 == 'no_trait_instruction':
            continue
        it0 = b.clone()
        it0.pos = ''
        r1 = f1(it0, ctx.rng)
        if r1 is None:
            continue
        pos1 = getattr(r1[0], 'pos', '')
        r1[0].pos = ''
        r2 = f2(r1[0], ctx.rng)
        if r2 is None:
            continue
        it = r2[0]
        if n1 == 'tuple_to_named_without_names' and (not it.members or it.members[0].attrs):
            continue      # the second injection put an instruction on member 0: the first fault (member 0 without a name) is gone
        it.meta = dict(b.meta, fault=n1 + '+' + n2, faults=[(n1, c1, r1[1], pos1), (n2, c2, r2[1], getattr(it, 'pos', ''))])
        pairs.append(it)
    stats = collections.Counter()
    for name, items in (('single_fault', singles), ('fault_pairs', pairs)):
        recs = ctx.run_set(name, items, vlib.obs_msgs)
        for r in recs:
            it = r['item']
            oc = vlib.outcome_class(r['out'])
            stats[name + ':' + oc] += 1
            if oc == 'panic':
                continue        # C16's subject
            msgs = [m for m in vlib.err_msgs(r['out'])] if oc == 'err' else []
            faults = it.meta['faults']
            missing = [f for f in faults if not any(m is not None and re.search(f[2], m) for m in msgs)]
            if not missing:
                continue
            has11 = any(f[1] == 11 for f in faults)
            for (fname, cls, rx, pos) in missing:
                if oc == 'ok':
                    ctx.report(r, 'documented misuse (%s, on a %s) is accepted' % (fname, pos or 'type'), 'fault injection', key='accepted@%s:%s' % (pos, fname))
                elif has11 and len(faults) == 2 and len(missing) == 1:
                    # rule-11 / argument errors abort attribute parsing: the other fault is not reported in the same expansion
                    ctx.report(r, 'two rules are broken but only one is reported (%s): missing %r' % (it.meta['fault'], rx), 'fault injection',
                               key='early-return:rule11')
                else:
                    ctx.report(r, 'documented misuse (%s, on a %s) is rejected without the diagnostic naming it: missing %r, got %r'
                               % (fname, pos or 'type', rx, msgs[:6]), 'fault injection', key='unreported@%s:%s' % (pos, fname))
    # the documented switch: with #[o2o(allow_unknown)] foreign attributes named like instructions of the other level are no misuse
    au_pairs = []
    for _ in range(600 if q else 6000):
        res = gen.c15_allow_unknown(ctx.rng.choice(ok_bases), ctx.rng) if ok_bases else None
        if res is not None:
            au_pairs.append(res)
    precs = ctx.run_set('allow_unknown_plain', [p_ for p_, _ in au_pairs], vlib.obs_full)
    frecs = ctx.run_set('allow_unknown_foreign', [f_ for _, f_ in au_pairs], vlib.obs_full)
    for pr_, fr_ in zip(precs, frecs):
        if vlib.outcome_class(pr_['out']) != 'ok':
            ctx.report(pr_, '#[o2o(allow_unknown)] added to a valid input makes it rejected: %s' % (pr_['out'] or '')[:200], 'valid-by-construction input', key='false-reject:allow_unknown')
        elif vlib.nospacing(fr_['out']) != vlib.nospacing(pr_['out']):
            ctx.report(fr_, 'with #[o2o(allow_unknown)] in place, foreign attributes (named like instructions of the other level) change the outcome: %s'
                       % (fr_['out'] or '')[:240], 'metamorphic: foreign attributes removed', key='false-reject:allow_unknown-foreign')
    ctx.cov['fault_classes'] = sorted(set(n for _, n, _ in inj))
    ctx.cov['fault_outcomes'] = dict(stats)
    return ctx.finish()



# ---------------------------------------------------------------------------------------------- C01
def obs_sem(s, rec=None):
    """the SEM summary of the outcome (syn-parsed structure of every impl) - set by run_set(sem=True)"""
    c = vlib.outcome_class(s)
    if c != 'ok':
        return vlib.obs_msgs(s)
    if rec is not None and s is rec.get('out'):
        return ('ok', rec.get('sem'))
    if rec is not None and s is rec.get('model'):
        return ('ok', rec.get('msem'))
    return ('ok', None)


def trait_ctxs(it):
    """(kind, fallible, counterpart text, hint) requested by the trait instructions of a generated item"""
    out = []
    for a in it.attrs:
        if isinstance(a, gen.Attr) and a.name in gen.TRAIT_NAMES and hasattr(a, 'cp'):
            for (k, f) in gen.kinds_of(a.name):
                out.append((k, f, oracles.norm_ty(a.cp), a.hint))
    return out


def check_struct_meanings(ctx, recs, key_prefix, cell_key=None):
    n = oos = 0
    reasons = collections.Counter()
    for r in recs:
        it = r.get('item')
        if it is None or vlib.outcome_class(r['out']) != 'ok' or not r.get('sem'):
            continue
        ims = oracles.sem_impls(r['sem'])
        if ims is None:
            continue
        hints = {(k, f, cp): h for k, f, cp, h in trait_ctxs(it)}
        for key, imp in ims:
            if key is None:
                continue
            kind, fallible, cp, _self = key
            if (kind, fallible, cp) not in hints:
                continue
            try:
                exp = oracles.expected_struct_meaning(it, kind, fallible, cp, hints[(kind, fallible, cp)])
            except oracles.OutOfScope as e:
                oos += 1
                reasons[str(e)] += 1
                continue
            act = oracles.actual_struct_meaning(imp, fallible, kind.endswith('existing'))
            n += 1
            if act != exp:
                ctx.report(r, 'conversion (%s, fallible=%s, %s): the generated body does not deliver the designated values: expected %r, generated %r'
                           % (kind, fallible, cp, exp, act), 'designated mapping (README rules) vs syn-parsed body of the implementation\'s impl',
                           key=cell_key or (key_prefix + ':' + kind))
    return n, oos, reasons


def prop_C01(ctx):
    ctx.build()
    q = ctx.tier == 'quick'
    recs = ctx.run_set('designated', gen.c01_cases(ctx.rng, 4000 if q else 40000), obs_sem, sem=True)
    n, oos, reasons = check_struct_meanings(ctx, recs, 'designated')
    recs2 = ctx.run_set('index_rename_tuple_dest', gen.c01_cases(ctx.rng, 1000 if q else 10000, index_rename_on_tuple_dest=True) + gen.c01_index_perm_cases(ctx.rng, 300 if q else 3000), obs_sem, sem=True)
    n2, oos2, reasons2 = check_struct_meanings(ctx, recs2, 'designated', cell_key='index-rename-tuple-dest')
    ctx.cov['index_rename_impls_checked'] = n2
    ctx.cov['impls_checked'] = n
    ctx.cov['impls_outside_statement'] = oos
    ctx.cov['outside_reasons'] = dict(reasons)
    generic_sets(ctx, ['struct_grid'], vlib.obs_full)
    return ctx.finish()


# ---------------------------------------------------------------------------------------------- C07
def body_meaning(imp, key):
    """flavour-independent reading of an impl body: struct meaning, or for enums the match arms"""
    kind, fallible, cp, _ = key
    m = oracles.actual_struct_meaning(imp, fallible, kind.endswith('existing'), with_lets=True)
    if m is not None:
        return m
    blk = oracles.fn_block(imp)
    if blk is None:
        return None
    stmts = [x for x in blk[1:]]
    lets = [oracles.sem_text(x[2]) if len(x) > 2 else '' for x in stmts if x[0] == 'let']
    rest = [x for x in stmts if x[0] != 'let']
    if len(rest) == 1 and rest[0][0] == 'tail':
        e = rest[0][1]
        if fallible and isinstance(e, list) and e[0] == 'call' and oracles.sval(e[1]) == 'Ok' and len(e) == 3:
            e = e[2]
        return ('expr', tuple(lets), oracles.sem_text(e))
    return ('stmts', tuple(oracles.sem_text(x[1]) if x[0] in ('stmt', 'tail') else repr(x) for x in stmts))


def prop_C07(ctx):
    ctx.build()
    q = ctx.tier == 'quick'
    recs = ctx.run_set('flavours', gen.c07_cases(ctx.rng, 4000 if q else 40000), obs_sem, sem=True)
    npairs = 0
    for r in recs:
        if vlib.outcome_class(r['out']) != 'ok' or not r.get('sem'):
            continue
        ims = oracles.sem_impls(r['sem'])
        if not ims:
            continue
        by = {}
        for key, imp in ims:
            if key is not None:
                by[(key[0], key[1], key[2])] = body_meaning(imp, key)
        for (kind, fall, cp), m in by.items():
            # owned vs by-reference
            if kind.startswith('owned') or kind == 'from_owned':
                other = {'owned_into': 'ref_into', 'from_owned': 'from_ref', 'owned_into_existing': 'ref_into_existing'}[kind]
                if (other, fall, cp) in by:
                    npairs += 1
                    if by[(other, fall, cp)] != m:
                        ctx.report(r, 'the by-reference conversion (%s) does not build what the owned one (%s) builds: %r vs %r' % (other, kind, by[(other, fall, cp)], m),
                                   'flavour comparison on the syn-parsed bodies', key='ref-vs-owned:' + kind)
            # fallible vs infallible
            if not fall and (kind, True, cp) in by:
                npairs += 1
                if by[(kind, True, cp)] != m and not (m and m[0] == 'stmts'):
                    ctx.report(r, 'the fallible conversion (%s) is not Ok(..) of the infallible one: %r vs %r' % (kind, by[(kind, True, cp)], m),
                               'flavour comparison on the syn-parsed bodies', key='try-vs-plain:' + kind)
            # into vs into_existing (+ frame: exactly the mapped places are assigned)
            if kind in ('owned_into', 'ref_into'):
                ex = kind + '_existing'
                for f2 in (False, True):
                    if (ex, f2, cp) in by and m is not None:
                        npairs += 1
                        me = by[(ex, f2, cp)]
                        lets_i = lets_e = ()
                        if m[0] == 'lets':
                            lets_i, m0 = m[1], m[2]
                        else:
                            m0 = m
                        if me is not None and me[0] == 'lets':
                            lets_e, me = me[1], me[2]
                        if lets_i != lets_e:
                            ctx.report(r, 'into_existing (%s) and %s do not evaluate the same vars' % (ex, kind), 'flavour comparison', key='existing-vs-into-vars:' + kind)
                            continue
                        if m0[0] == 'named':
                            want = ('assign', {'other.' + k: v for k, v in m0[1].items()})
                            if m0[2] is not None:
                                continue          # `..update` has no into_existing counterpart
                        elif m0[0] == 'tuple':
                            want = ('assign', {'other.%d' % i: v for i, v in enumerate(m0[1])})
                        elif m0[0] == 'unit':
                            want = ('assign', {})
                        else:
                            continue
                        if me != want:
                            ctx.report(r, 'into_existing (%s) does not leave the existing value equal to what %s produces on the mapped fields, or touches another field: '
                                       '%r vs %r' % (ex, kind, me, want), 'flavour comparison on the syn-parsed bodies', key='existing-vs-into:' + kind)
    ctx.cov['flavour_pairs_compared'] = npairs
    # bare #[parent] fields: own assignments and parent conversions must come in the same order in every Into-side flavour
    recs3 = ctx.run_set('parents', gen.c07_parent_cases(ctx.rng, 1500 if q else 15000), obs_sem, sem=True)
    nparent = 0
    for r in recs3:
        if vlib.outcome_class(r['out']) != 'ok' or not r.get('sem'):
            continue
        eff = {}
        for key, imp in oracles.sem_impls(r['sem']) or []:
            if key is not None and key[0] in ('owned_into', 'ref_into', 'owned_into_existing', 'ref_into_existing'):
                eff[(key[0], key[1], key[2])] = oracles.body_effects(imp, key[1])
                if key[1]:
                    for pname in oracles.parent_calls_without_propagation(imp):
                        ctx.report(r, 'the fallible flavour %s does not return the error raised by the conversion of the #[parent] field `%s`: its '
                                   'try_into_existing(..) is called without `?` (the other flavours propagate it)' % (key[0], pname),
                                   'syn-parsed body: error propagation of parent conversions', key='parent-propagation:' + key[0])
        for cp in {k[2] for k in eff}:
            group = sorted((k, v) for k, v in eff.items() if k[2] == cp)
            if any(v is None for _, v in group):
                ctx.cov['parent_bodies_unread'] = ctx.cov.get('parent_bodies_unread', 0) + 1
                continue
            k0, v0 = group[0]
            for k, v in group[1:]:
                nparent += 1
                if v != v0:
                    ctx.report(r, 'flavours %s%s and %s%s of one mapping do not leave the same value: the struct\'s own assignments and the flattened '
                               '#[parent] conversions are applied in different orders / with different values: %r vs %r'
                               % (k[0], ' (fallible)' if k[1] else '', k0[0], ' (fallible)' if k0[1] else '', v, v0),
                               'flavour comparison on the syn-parsed bodies (order-aware)', key='parent-order:' + k[0])
    ctx.cov['parent_flavour_pairs_compared'] = nparent
    recs2 = ctx.run_set('index_rename', gen.c01_index_perm_cases(ctx.rng, 200 if q else 2000), obs_sem, sem=True)
    for r in recs2:
        if vlib.outcome_class(r['out']) != 'ok' or not r.get('sem'):
            continue
        by = {}
        for key, imp in oracles.sem_impls(r['sem']) or []:
            if key is not None:
                by[(key[0], key[1], key[2])] = body_meaning(imp, key)
        for (kind, fall, cp), m in by.items():
            if kind in ('owned_into', 'ref_into') and m and m[0] == 'tuple':
                for f2 in (False, True):
                    me = by.get((kind + '_existing', f2, cp))
                    if me is not None and me != ('assign', {'other.%d' % i: v for i, v in enumerate(m[1])}):
                        ctx.report(r, 'into_existing and into disagree on the destination positions when members are renamed by index', 'flavour comparison',
                                   key='index-rename-tuple-dest')
    return ctx.finish()


# ---------------------------------------------------------------------------------------------- C08
def c08_facts(sem, it):
    """per impl of the instruction under test: the facts the statement fixes, read off the SEM summary"""
    spec = it.meta['spec']
    res = []
    ims = oracles.sem_impls(sem)
    if ims is None:
        return None
    for key, imp in ims:
        if key is None or key[2] != 'A':
            continue
        kind, fallible, cp, _ = key
        src = 'value' if kind.startswith('from') else 'self'
        existing = kind.endswith('existing')
        f = oracles.node(imp, 'fn')
        fn_attrs = [oracles.sval(x) for x in oracles.node(f, 'attrs')[1:]] if f is not None and oracles.node(f, 'attrs') else []
        impl_attrs = [oracles.sval(x) for x in oracles.node(imp, 'attrs')[1:]] if oracles.node(imp, 'attrs') else []
        blk = oracles.fn_block(imp)
        stmts = blk[1:] if blk else []
        problems = []
        # attributes
        for nm, where, pre in (('attribute', fn_attrs, ''), ('inner_attribute', fn_attrs, '!'), ('impl_attribute', impl_attrs, '')):
            want = spec[nm]
            have = [a for a in where if a.startswith('!') == (pre == '!')]
            if want is not None:
                if pre + oracles.nsp(want) not in [oracles.nsp(a) for a in have]:
                    problems.append('%s(%s) is not attached (found %r)' % (nm, want, have))
            elif have:
                problems.append('unexpected %s %r' % (nm, have))
        # vars: let bindings, in order, once, before everything else (after `let mut obj` in the post-init form)
        lets = [(oracles.sval(x[1]), oracles.sem_text(x[2]) if len(x) > 2 else '') for x in stmts if x[0] == 'let']
        lets_no_obj = [l for l in lets if l[0] != 'mutobj:A' and not l[0].startswith('mutobj')]
        want_lets = [(k, oracles.subst_text(e, '<no-tilde>', src)) for k, e in (spec['vars'] or [])]
        got_lets = [(k, oracles.nsp(v)) for k, v in lets_no_obj]
        def norm_block(v):
            return v[1:-1] if v.startswith('{') and v.endswith('}') and ';' not in v else v
        if [(k, norm_block(v)) for k, v in got_lets] != [(k, norm_block(v)) for k, v in want_lets]:
            problems.append('vars: expected bindings %r, found %r' % (want_lets, got_lets))
        else:
            # position: all lets (except `let mut obj`) come before any other statement
            seen_other = False
            for x in stmts:
                if x[0] == 'let':
                    if seen_other and not oracles.sval(x[1]).startswith('mutobj'):
                        problems.append('a vars binding comes after other statements')
                elif x[0] != 'item':
                    seen_other = True
        tail = spec['tail']
        rest = [x for x in stmts if x[0] != 'let']
        if tail and tail[0] == 'return':
            want = oracles.subst_text(tail[1], src + '.', src)
            if existing:
                ok = len(rest) >= 1 and rest[0][0] == 'stmt' and isinstance(rest[0][1], list) and rest[0][1][0] == 'assign' \
                    and oracles.sval(rest[0][1][1]) == '*other' and oracles.nsp(oracles.sem_text(rest[0][1][2])) == want
                extra = [x for x in rest[1:] if not (x[0] == 'tail' and oracles.sem_text(x[1]) == 'Ok(())')]
                if not ok or extra:
                    problems.append('return: expected the body `*other = %s;`, found %r' % (want, [oracles.sem_text(x[1]) for x in rest]))
            else:
                ok = len(rest) == 1 and rest[0][0] == 'tail' and oracles.nsp(oracles.sem_text(rest[0][1])) == want
                if not ok:
                    problems.append('return: expected the body `%s`, found %r' % (want, [oracles.sem_text(x[1]) for x in rest]))
        if tail and tail[0] == 'update' and not existing:
            want = oracles.subst_text(tail[1], '<no-tilde>', src)
            e = rest[-1][1] if rest and rest[-1][0] == 'tail' else None
            if fallible and isinstance(e, list) and e[0] == 'call' and oracles.sval(e[1]) == 'Ok' and len(e) == 3:
                e = e[2]
            if isinstance(e, list) and e[0] == 'struct':
                restx = [x for x in e[2:] if x[0] in ('rest', 'rest-empty')]
                fields = [oracles.sval(x[1]) for x in e[2:] if x[0] == 'f']
                if not restx or restx[0][0] != 'rest' or oracles.nsp(oracles.sem_text(restx[0][1])) != want:
                    problems.append('..update: expected `..%s` as the base of the literal' % want)
                # every literal the instruction builds - the nested ones of #[child] / parameterised #[parent] members too - is closed by it
                def nested_literals(x):
                    if isinstance(x, list):
                        if x and x[0] == 'struct':
                            yield x
                        for y in x[1:]:
                            if isinstance(y, list) and y and y[0] in ('rest', 'rest-empty'):
                                continue          # the update expression itself may be a literal of the user
                            for z in nested_literals(y):
                                yield z
                for fx in e[2:]:
                    if fx[0] != 'f':
                        continue
                    for lit in nested_literals(fx[2] if len(fx) > 2 else None):
                        lrest = [x for x in lit[2:] if x[0] in ('rest', 'rest-empty')]
                        if it.meta.get('nested') and (not lrest or lrest[0][0] != 'rest' or oracles.nsp(oracles.sem_text(lrest[0][1])) != want):
                            problems.append('..update: the nested literal %s is not closed by `..%s`' % (oracles.sval(lit[1]), want))
                exp_fields = expected_literal_fields(it, kind)
                if exp_fields is not None and sorted(fields) != sorted(exp_fields):
                    problems.append('..update: the literal lists %r, the member instructions provide %r' % (sorted(fields), sorted(exp_fields)))
        res.append(((kind, fallible), problems))
    return res


def expected_literal_fields(it, kind):
    """destination fields the members of a c08 struct provide for the conversion"""
    if it.kind != 'struct' or it.shape != 'named':
        return None
    out = []
    for f in it.members:
        names = [a.name for a in f.attrs]
        if 'parent' in names or 'child' in names:
            return None
        if 'ghost' in names:
            continue
        if kind.startswith('from'):
            out.append(f.name)
        else:
            m = [a for a in f.attrs if a.name == 'map']
            out.append(m[0].args if (m and re.fullmatch(r'\w+', m[0].args or '')) else f.name)
    return out


def obs_C08(s, rec=None):
    c = vlib.outcome_class(s)
    if c != 'ok':
        return vlib.obs_msgs(s)
    sem = rec.get('sem') if s is rec.get('out') else rec.get('msem')
    it = rec.get('item')
    if sem is None or it is None or 'spec' not in it.meta:
        return ('ok', sem)
    return ('ok', repr(c08_facts(sem, it)))


def prop_C08(ctx):
    ctx.build()
    q = ctx.tier == 'quick'
    recs = ctx.run_set('params', gen.c08_cases(ctx.rng, 5000 if q else 50000), obs_C08, sem=True)
    n = 0
    for r in recs:
        if vlib.outcome_class(r['out']) == 'panic' and (r['item'].meta['spec']['tail'] or ('',))[0] == 'return':
            # `return expr` replaces the whole generated body: no part of the member-by-member rendering may be reached
            ctx.report(r, 'an instruction with `return expr` does not expand to the expression: the expansion panicked (%s)' % vlib.panic_payload(r['out'])[:120],
                       'catch_unwind on an input whose only body is the quick return', key='qret-panic:' + panic_key(r))
            continue
        if vlib.outcome_class(r['out']) == 'ok' and r['item'].meta['spec'].get('inner_attribute') and (r.get('sem') or '').startswith('(sem-parse-fail'):
            # inner_attribute(..) goes inside the fn body - i.e. at its start, the only place where `#![..]` is an inner attribute of
            # the fn; an output that no longer parses because of it has the attribute somewhere else
            has_parent = any(a.name == 'parent' for f in r['item'].members for a in getattr(f, 'attrs', []))
            qret = (r['item'].meta['spec']['tail'] or ('',))[0] == 'return'
            toks = vlib.flatten(vlib.ok_tokens(r['out']))
            misplaced = any(toks[i] == '#' and toks[i + 1] == '!' and i > 0 and toks[i - 1] != '{' for i in range(len(toks) - 1))
            if misplaced:
                ctx.report(r, 'inner_attribute(..) is not attached inside the fn body at its start: `#![..]` appears after other statements and the '
                           'generated impl does not parse', 'position of `#!` in the implementation\'s tokens + syn::parse_str::<File>',
                           key='qret-parent' if (qret and has_parent) else 'inner-attr-position')
            continue
        if vlib.outcome_class(r['out']) == 'err' and not r['item'].meta.get('may_reject'):
            # the parameters are the documented ones on a type whose shape supports them: the instruction must be accepted
            ctx.report(r, 'an instruction with documented parameters (%s) is rejected: %s' % (', '.join(k for k, v in r['item'].meta['spec'].items() if v),
                                                                                         '; '.join(str(m) for m in vlib.err_msgs(r['out']))[:200]),
                       'valid-by-construction input', key='rejected')
            continue
        if vlib.outcome_class(r['out']) != 'ok' or not r.get('sem'):
            continue
        facts = c08_facts(r['sem'], r['item'])
        if facts is None:
            continue
        want_kinds = set(gen.kinds_of(r['item'].meta['instr']))
        got_kinds = set(k for k, _ in facts)
        if want_kinds != got_kinds:
            continue      # C04's subject
        for (kind, fallible), problems in facts:
            n += 1
            for p in problems:
                cell = 'qret-parent' if (r['item'].meta['spec']['tail'] or ('',))[0] == 'return' and any(a.name == 'parent' for f in r['item'].members for a in getattr(f, 'attrs', [])) else None
                ctx.report(r, 'impl (%s, fallible=%s): %s' % (kind, fallible, p), 'parameter facts read off the syn-parsed impl', key=cell or ('param:' + p.split(':')[0].split(' ')[0]))
    ctx.cov['impls_checked'] = n
    generic_sets(ctx, ['corpus'], vlib.obs_full)
    return ctx.finish()


# ---------------------------------------------------------------------------------------------- C02
def check_enum_arms(ctx, r, it, key, imp):
    kind, fallible, cp, _self = key
    try:
        exp, any_ghost = oracles.expected_enum_arms(it, kind, fallible, cp)
    except oracles.OutOfScope as e:
        return 'oos', str(e)
    act = oracles.actual_enum_arms(imp, fallible)
    if act is None:
        return 'bad', 'the body is not a single match'
    scrut, arms = act
    is_from = kind.startswith('from')
    want_scrut = 'value' if is_from else 'self'
    problems = []
    if scrut != want_scrut:
        problems.append('the match scrutinee is %s' % scrut)
    dflt = None
    got = []
    for pat, body in arms:
        if pat == '_':
            dflt = body
            if (pat, body) != arms[-1]:
                problems.append('the `_` arm is not last')
            continue
        got.append((oracles.parse_pattern(pat), body))
    if len(got) != len(exp):
        problems.append('expected %d variant arms, found %d' % (len(exp), len(got)))
    for (ep, em), (gp, gb) in zip(exp, got):
        side, pat = ep
        if isinstance(pat, str):     # ghost variant with default: pattern is the own variant, any payload form
            want_path = ('E::' if side == 'own' else cp + '::') + pat
            if gp[1] != want_path:
                problems.append('arm pattern %r: expected variant %s' % (gp, want_path))
            if gb != em:
                problems.append('arm for %s: expected %r, found %r' % (want_path, em, gb))
            continue
        pshape, name, binds = pat
        want_path = ('E::' if side == 'own' else cp + '::') + name
        gshape, gpath, gbinds = gp
        gb_cmp = sorted(x for x in gbinds if x != '..') if gshape == 'named' else [x for x in gbinds if x != '..']
        if gpath != want_path or (pshape == 'unit') != (gshape == 'unit' and True) and not (pshape == 'unit' and gbinds in ([], ['..'])) \
                or (pshape != 'unit' and (gshape != pshape or gb_cmp != (sorted(binds) if pshape == 'named' else binds))):
            problems.append('arm pattern: expected %s %s %r, found %r' % (pshape, want_path, binds, gp))
        _, dside, dname, mean = em
        dpath = ('E::' if dside == 'own' else cp + '::') + dname
        if mean == ('unit',):
            okb = gb == ('expr', dpath)
        else:
            okb = gb == ('build', dpath, mean)
        if not okb:
            problems.append('arm for %s: expected %s %r, found %r' % (want_path, dpath, mean, gb))
    return ('bad', '; '.join(problems)) if problems else ('ok', dflt)


def prop_C02(ctx):
    ctx.build()
    q = ctx.tier == 'quick'
    recs = ctx.run_set('designated_arms', gen.c02_cases(ctx.rng, 4000 if q else 40000), obs_sem, sem=True)
    n = oos = 0
    reasons = collections.Counter()
    for r in recs:
        it = r.get('item')
        if vlib.outcome_class(r['out']) != 'ok' or not r.get('sem'):
            continue
        for key, imp in oracles.sem_impls(r['sem']) or []:
            if key is None:
                continue
            st, info = check_enum_arms(ctx, r, it, key, imp)
            if st == 'oos':
                oos += 1
                reasons[info] += 1
            elif st == 'bad':
                n += 1
                ctx.report(r, 'conversion (%s, fallible=%s, %s): %s' % (key[0], key[1], key[2], info), 'designated arms (README rules) vs syn-parsed match of the implementation\'s impl',
                           key='arms:' + key[0])
            else:
                n += 1
    ctx.cov['impls_checked'] = n
    ctx.cov['impls_outside_statement'] = oos
    ctx.cov['outside_reasons'] = dict(reasons)
    generic_sets(ctx, ['enum_grid', 'vfield_grid'], vlib.obs_full)
    return ctx.finish()


# ---------------------------------------------------------------------------------------------- C09
def pat_matches(pat, lit):
    """does the (integer or string) literal `lit` match pattern text `pat`?  None when not decidable here"""
    pat = oracles.nsp(pat)
    lit = oracles.nsp(lit)
    undecided = False
    for alt in pat.split('|'):
        if alt == '_':
            return True
        if alt == lit:
            return True
        if re.fullmatch(r'[^\W\d]\w*(::\w+)*', alt):
            undecided = True          # a constant (or a binding): its value is not known here
            continue
        m = re.fullmatch(r'(-?\w+(?:::\w+)?)\.\.(=?)(-?\w+(?:::\w+)?)?', alt)
        if m and re.fullmatch(r'-?\d+', lit):
            def num(x):
                if x in ('i32::MIN',):
                    return -2 ** 31
                return int(x) if re.fullmatch(r'-?\d+', x) else None
            lo, hi = num(m.group(1)), (num(m.group(3)) if m.group(3) else None)
            v = int(lit)
            if lo is None or (m.group(3) and hi is None):
                return None
            if hi is None:
                if v >= lo:
                    return True
            elif lo <= v and (v <= hi if m.group(2) else v < hi):
                return True
    return None if undecided else False


def prop_C09(ctx):
    ctx.build()
    q = ctx.tier == 'quick'
    recs = ctx.run_set('literal_pattern', gen.c09_cases(ctx.rng, 5000 if q else 50000), obs_sem, sem=True)
    n = nrt = 0
    for r in recs:
        it = r['item']
        if vlib.outcome_class(r['out']) != 'ok' or not r.get('sem'):
            continue
        per_cp = {}
        for key, imp in oracles.sem_impls(r['sem']) or []:
            if key is None:
                continue
            kind, fallible = key[0], key[1]
            cp_now = key[2] if key[2] in it.meta['specs'] else it.meta['cp']
            spec = it.meta['specs'][cp_now]
            from_arms, into_arms = per_cp.get(cp_now, (None, None))
            act = oracles.actual_enum_arms(imp, fallible)
            if act is None:
                ctx.report(r, 'conversion (%s): the body is not a single match' % kind, 'syn-parsed body', key='shape')
                continue
            scrut, arms = act
            n += 1
            if kind.startswith('from'):
                # arms in variant declaration order: literal / pattern of each variant => that variant; then the default case
                want = [(oracles.nsp(v['lit'] or v['pat']), ('expr', 'E::' + v['name'])) for v in spec if (v['lit'] or v['pat'])]
                plain = [v for v in spec if not (v['lit'] or v['pat'])]
                got = [(p, b) for p, b in arms]
                got_lp = [(p, b) for p, b in got if not re.fullmatch(re.escape(cp_now) + r'::V\d+', p)]
                dfl = None
                if got_lp and got_lp[-1][0] == '_' and got_lp[-1][1] == ('expr', 'dflt()'):
                    dfl = got_lp[-1]
                    got_lp = got_lp[:-1]
                if got_lp != want:
                    ctx.report(r, 'conversion (%s): arms are not the variants\' literals / patterns in declaration order: expected %r, generated %r' % (kind, want, got_lp),
                               'declaration-order rule vs syn-parsed match', key='from-arms')
                if it.meta['default'] and want and dfl is None:
                    ctx.report(r, 'conversion (%s): the default case `_ => dflt()` is missing or not last' % kind, 'syn-parsed match', key='default-arm')
                from_arms = got_lp + ([dfl] if dfl else [])
            else:
                want = []
                for v in spec:
                    if v['lit'] is not None:
                        want.append(('E::' + v['name'], ('expr', oracles.nsp(v['lit']))))
                    elif v['pat'] is not None and v['into'] is not None:
                        want.append(('E::' + v['name'], ('expr', oracles.nsp(v['into']))))
                    else:
                        want.append(('E::' + v['name'], None))
                got = [(p, b) for p, b in arms if p != '_']
                for (wp, wb), (gp, gb) in zip(want, got):
                    if wb is not None and (gp != wp or gb != wb):
                        ctx.report(r, 'conversion (%s): variant %s should convert to %r, generated arm %r => %r' % (kind, wp, wb, gp, gb), 'literal rule vs syn-parsed match',
                                   key='into-arms')
                into_arms = got
            per_cp[cp_now] = (from_arms, into_arms)
        for cp_now, (from_arms, into_arms) in per_cp.items():
            spec = it.meta['specs'][cp_now]
            # round trip: literals pairwise distinct, no earlier arm's pattern matches the literal  =>  From(Into(V)) = V
            if from_arms is not None and into_arms is not None:
                lits = [v['lit'] for v in spec if v['lit'] is not None]
                if len(set(lits)) == len(lits):
                    for v in spec:
                        if v['lit'] is None:
                            continue
                        produced = dict(into_arms).get('E::' + v['name'])
                        if not produced or produced[0] != 'expr':
                            continue
                        val = produced[1]
                        hit = None
                        undecided = False
                        for p, b in from_arms:
                            mres = pat_matches(p, val)
                            if mres is None:
                                undecided = True
                                break
                            if mres:
                                hit = (p, b)
                                break
                        if undecided:
                            continue
                        nrt += 1
                        earlier = False
                        for w in spec:
                            if w is v:
                                break
                            if w['pat'] is not None and pat_matches(w['pat'], v['lit']):
                                earlier = True
                        if earlier:
                            continue
                        if hit is None or hit[1] != ('expr', 'E::' + v['name']):
                            ctx.report(r, 'round trip: %s converts to %s, which converts back to %r' % (v['name'], val, hit), 'first-match evaluation of the generated arms',
                                       key='round-trip')
    ctx.cov['matches_checked'] = n
    ctx.cov['round_trips_evaluated'] = nrt
    generic_sets(ctx, ['enum_grid'], vlib.obs_class)
    return ctx.finish()


# ---------------------------------------------------------------------------------------------- C03
def literal_tree(e):
    """nested struct literal of a SEM expression -> (type path, {field: text | subtree}), with duplicate detection"""
    dups = []
    def go(x):
        if isinstance(x, list) and x[0] == 'struct':
            d = {}
            for f in x[2:]:
                if f[0] == 'f':
                    nm = oracles.sval(f[1])
                    if nm in d:
                        dups.append(nm)
                    d[nm] = go(f[2])
            return ('lit', oracles.sval(x[1]), d)
        return oracles.sem_text(x)
    return go(e), dups


def any_duplicate_field(sem):
    """(impl key, field) for every struct literal anywhere in the summary that names a field twice"""
    out = []
    def walk(x, key):
        if isinstance(x, list):
            if x and x[0] == 'struct':
                seen = set()
                for f in x[2:]:
                    if isinstance(f, list) and f[0] == 'f':
                        nm = oracles.sval(f[1])
                        if nm in seen:
                            out.append((key, oracles.sval(x[1]), nm))
                        seen.add(nm)
            for y in x:
                walk(y, key)
    for key, imp in oracles.sem_impls(sem) or []:
        walk(imp, key)
    return out


def c03_expected_tree(it, dst_ty):
    """nested literal the child tree of a c03_child item designates for an Into conversion"""
    tree = dict(it.meta['tree'])
    root = {}
    nodes = {'': ('lit', dst_ty, root)}
    for path in sorted(tree, key=lambda p: p.count('.')):
        parent = path.rsplit('.', 1)[0] if '.' in path else ''
        name = path.rsplit('.', 1)[-1]
        d = {}
        nodes[path] = ('lit', tree[path], d)
        nodes[parent][2][name] = nodes[path]
    return nodes


def c03_grouped(flat):
    """after the stable sort by first-seen path, are the members of every nesting node contiguous? (the order
    condition under which the descent builds each node once; outside it: finding F-03a)"""
    # a field without child path forms a group of its own (keyed by its name), in declaration order
    key = [(path if path else '#' + str(fname)) for fname, path, _ in flat]
    groups = []
    for pth in key:
        if pth not in groups:
            groups.append(pth)
    order = sorted(range(len(flat)), key=lambda i: groups.index(key[i]))
    paths = [key[i] for i in order]
    prefixes = set()
    for pth in paths:
        parts = pth.split('.') if (pth and not pth.startswith('#')) else []
        for k in range(1, len(parts) + 1):
            prefixes.add('.'.join(parts[:k]))
    for pre in prefixes:
        idx = [i for i, pth in enumerate(paths) if pth == pre or pth.startswith(pre + '.')]
        if idx and idx != list(range(idx[0], idx[-1] + 1)):
            return False
    return True


def c03_leaf_places(e, path, out):
    """destination place (list of field names / positions) of every leaf expression of a nested literal"""
    if isinstance(e, list) and e and e[0] == 'struct':
        for f in e[2:]:
            if isinstance(f, list) and f and f[0] == 'f':
                c03_leaf_places(f[2], path + [oracles.sval(f[1])], out)
    elif isinstance(e, list) and e and e[0] == 'call' and re.fullmatch(r'[A-Z]\w*', oracles.sval(e[1]) or ''):
        for i, a in enumerate(e[2:]):
            c03_leaf_places(a, path + [str(i)], out)
    else:
        out.setdefault(oracles.sem_text(e), []).append('.'.join(path))


def c03_existing_no_overwrite(ctx, r, ims):
    n = 0
    for key, imp in ims:
        if key is None or not key[0].endswith('existing'):
            continue
        asg = oracles.existing_assignments(imp, key[1])
        if asg is None:
            continue
        n += 1
        seen = {}
        for place, v in asg:
            if place in seen and seen[place] != v and 'self.' in v and 'self.' in seen[place]:
                ctx.report(r, 'into_existing (%s, fallible=%s) assigns two different members to one place: %s = %s and later %s = %s'
                           % (key[0], key[1], place, seen[place], place, v), 'assignments of the syn-parsed into_existing body', key='existing-overwrites')
                break
            seen[place] = v
    return n


def c03_flavour_paths(ctx, r, ims):
    """containers with their own shape: into() and into_existing() of one mapping must put every value at the same place of the
    nested counterpart (field name or position inside each container), whatever the position of the field in the flat struct"""
    into, existing = {}, {}
    for key, imp in ims:
        if key is None:
            continue
        kind, fallible, cp, _ = key
        blk = oracles.fn_block(imp)
        stmts = blk[1:] if blk else []
        if kind in ('owned_into', 'ref_into'):
            e = stmts[-1][1] if stmts and stmts[-1][0] == 'tail' else None
            if fallible and isinstance(e, list) and e[0] == 'call' and oracles.sval(e[1]) == 'Ok' and len(e) == 3:
                e = e[2]
            if isinstance(e, list) and e[0] in ('struct', 'call'):
                d = {}
                c03_leaf_places(e, [], d)
                into[(kind, fallible)] = d
        elif kind.endswith('existing'):
            m = oracles.actual_struct_meaning(imp, fallible, True)
            if m is not None and m[0] == 'assign':
                d = {}
                for place, v in m[1].items():
                    d.setdefault(v, []).append(place[len('other.'):] if place.startswith('other.') else place)
                existing[(kind, fallible)] = d
    n = 0
    for (ki, fi), di in into.items():
        for (ke, fe), de in existing.items():
            n += 1       # owned / by-reference flavours alike: a value is compared only where both bodies write the very same expression
            for v, places in di.items():
                if 'self.' not in v or v not in de:
                    continue
                if sorted(places) != sorted(de[v]):
                    # which segment differs: the last one (the member's own place inside its container) or an earlier one (the position
                    # of an index-named *container* inside a tuple-shaped parent: finding F-03d)
                    a, b = sorted(places)[0].split('.'), sorted(de[v])[0].split('.')
                    inner = len(a) == len(b) and a[:-1] != b[:-1]
                    ctx.report(r, 'into_existing (%s, fallible=%s) writes %s to %r, into() (%s, fallible=%s) puts it at %r' % (ke, fe, v, sorted(de[v]), ki, fi, sorted(places)),
                               'into vs into_existing on the syn-parsed bodies (places inside the nested counterpart)',
                               key='existing-vs-into-place:container-position' if inner else 'existing-vs-into-place')
    return n


def c03_parent_leaves(form, prefix):
    """[(destination member name, source path below the parent field)] for the leaves of a parsed #[parent(..)] form; None when
    the form uses index members (outside this oracle)"""
    out = []
    for c in form:
        if c['this'].isdigit() or (c['map'] or '').isdigit():
            return None
        if c['kids'] is not None:
            sub = c03_parent_leaves(c['kids'], prefix + [c['this']])
            if sub is None:
                return None
            out += sub
        else:
            out.append((c['map'] or c['this'], '.'.join(prefix + [c['this']])))
    return out


def c03_parent_literal(form, ty):
    """the nested literal from() builds for a parameterised parent: every leaf comes from the flat counterpart"""
    d = {}
    for c in form:
        if c['this'].isdigit() or (c['map'] or '').isdigit():
            return None
        if c['kids'] is not None:
            if c['ty'] is None:
                return None
            sub = c03_parent_literal(c['kids'], c['ty'])
            if sub is None:
                return None
            d[c['this']] = sub
        else:
            d[c['this']] = 'value.' + (c['map'] or c['this'])
    return ('lit', ty, d)


def c03_parent_oracle(ctx, r, it, ims):
    """parameterised #[parent(..)] fields of a named struct, counterpart A: from() builds each typed sub-struct once from the flat
    counterpart's fields; into()/into_existing() read self.<parent>.<sub path>.<field> into the flat counterpart"""
    n = 0
    tys = {'par': 'P', 'par2': 'P2'}
    forms = {k: gen.parse_parent_form(v) for k, v in it.meta['forms'].items() if v}
    for key, imp in ims:
        if key is None:
            continue
        kind, fallible, cp, _ = key
        if cp != 'A':
            continue
        n += 1
        blk = oracles.fn_block(imp)
        stmts = blk[1:] if blk else []
        if kind.startswith('from'):
            e = stmts[-1][1] if stmts and stmts[-1][0] == 'tail' else None
            if fallible and isinstance(e, list) and e[0] == 'call' and oracles.sval(e[1]) == 'Ok' and len(e) == 3:
                e = e[2]
            if not (isinstance(e, list) and e[0] == 'struct'):
                continue
            got, dups = literal_tree(e)
            for pf, form in forms.items():
                want = c03_parent_literal(form, tys[pf])
                if want is None:
                    continue
                if got[2].get(pf) != want:
                    ctx.report(r, 'conversion (%s): the parameterised #[parent] field `%s` must be built once, every typed sub-struct from the flat counterpart\'s fields: expected %r, generated %r'
                               % (kind, pf, want, got[2].get(pf)), 'parent form vs syn-parsed literal', key='parent-from')
        else:
            existing = kind.endswith('existing')
            m = oracles.actual_struct_meaning(imp, fallible, existing)
            if m is None or m[0] not in ('named', 'assign'):
                continue
            d = m[1]
            for pf, form in forms.items():
                leaves = c03_parent_leaves(form, [pf])
                if leaves is None:
                    continue
                want = {(('other.' + nm) if existing else nm): 'self.' + src for nm, src in leaves}
                have = {k2: v for k2, v in d.items() if re.match(r'\(?&?\(?self\.%s\b' % pf, v) or k2 in want}
                if have != want:
                    ctx.report(r, 'conversion (%s): the members of the parameterised #[parent] field `%s` must be read from self.%s.<sub path>.<field> into the flat counterpart: expected %r, generated %r'
                               % (kind, pf, pf, want, have), 'parent form vs syn-parsed body', key='parent-into')
    return n


def prop_C03(ctx):
    ctx.build()
    q = ctx.tier == 'quick'
    recs = ctx.run_set('flattening', gen.c03_cases(ctx.rng, 5000 if q else 50000), obs_sem, sem=True)
    n = 0
    for r in recs:
        it = r['item']
        if vlib.outcome_class(r['out']) != 'ok' or not r.get('sem'):
            continue
        gpaths = [g for a in it.attrs if a.name == 'ghosts' for g in re.findall(r'(?:^|,)\s*([\w.]+)@', a.args or '')]
        interleaved = it.meta['gen'] in ('c03_child', 'c03_hinted') and \
            not c03_grouped(list(it.meta['flat']) + [('#ghost%d' % gi, gp, None) for gi, gp in enumerate(gpaths)])
        for key, ty, fld in any_duplicate_field(r['sem']):
            ctx.report(r, 'a nested struct literal of type %s names the field `%s` twice (an intermediate struct is built more than once)' % (ty, fld),
                       'syn-parsed body', key='built-twice:interleaved' if interleaved else 'built-twice')
        ims = oracles.sem_impls(r['sem']) or []
        if it.meta['gen'] == 'c03_child' and it.shape == 'named':
            flat = it.meta['flat']
            named = it.shape == 'named'
            ghosts = [a for a in it.attrs if a.name == 'ghosts']
            gpath = None
            if ghosts:
                m = re.match(r'([\w.]+)@gz', ghosts[0].args)
                gpath = m.group(1) if m else None
            for key, imp in ims:
                if key is None:
                    continue
                kind, fallible, cp, _ = key
                if cp != 'A':
                    continue      # the twin counterpart B (decoy path dz) is tied by the correspondence only
                n += 1
                blk = oracles.fn_block(imp)
                stmts = blk[1:] if blk else []
                if kind in ('owned_into', 'ref_into'):
                    e = stmts[-1][1] if stmts and stmts[-1][0] == 'tail' else None
                    if fallible and isinstance(e, list) and e[0] == 'call' and oracles.sval(e[1]) == 'Ok' and len(e) == 3:
                        e = e[2]
                    if not (isinstance(e, list) and e[0] == 'struct'):
                        ctx.report(r, 'conversion (%s): the result is not a struct literal' % kind, 'syn-parsed body', key='into-shape')
                        continue
                    got, dups = literal_tree(e)
                    nodes = c03_expected_tree(it, 'A')
                    for j, (fname, path, ren) in enumerate(flat):
                        place = ren or fname
                        nodes[path or ''][2][place] = 'self.%s' % fname
                    if gpath is not None:
                        nodes[gpath][2]['gz'] = '7'
                    if got != nodes['']:
                        ctx.report(r, 'conversion (%s): every nested struct must be built once with all and only its own members: expected %r, generated %r'
                                   % (kind, nodes[''], got), 'nesting tree vs syn-parsed literal', key='into-tree:interleaved' if interleaved else 'into-tree')
                elif kind.startswith('from'):
                    m = oracles.actual_struct_meaning(imp, fallible, False)
                    exp = {}
                    for j, (fname, path, ren) in enumerate(flat):
                        exp[fname] = 'value.' + ((path + '.') if path else '') + (ren or fname)
                    if named:
                        ok = m is not None and m[0] == 'named' and m[1] == exp
                    else:
                        ok = m is not None and m[0] == 'tuple' and sorted(m[1]) == sorted(exp.values())
                        if ok and m[1] != [exp[f[0]] for f in flat]:
                            ok = 'order'
                    if ok == 'order':
                        ctx.report(r, 'conversion (%s): a tuple struct is built positionally from the group-sorted field order: %r' % (kind, m), 'syn-parsed body', key='from-tuple-order')
                    elif not ok:
                        ctx.report(r, 'conversion (%s): each field must be read from counterpart.<child path>.<field>: expected %r, generated %r' % (kind, exp, m),
                                   'nesting tree vs syn-parsed body', key='from-paths')
                else:
                    m = oracles.actual_struct_meaning(imp, fallible, True)
                    exp = {}
                    for j, (fname, path, ren) in enumerate(flat):
                        exp['other.' + ((path + '.') if path else '') + (ren or fname)] = 'self.%s' % fname
                    if gpath is not None:
                        exp['other.%s.gz' % gpath] = '7'
                    if not (m is not None and m[0] == 'assign' and m[1] == exp):
                        cell = 'existing-index-child' if not named else 'existing-paths'
                        ctx.report(r, 'conversion (%s): each field must be written to counterpart.<child path>.<field>: expected %r, generated %r' % (kind, exp, m),
                                   'nesting tree vs syn-parsed body', key=cell)
        elif it.meta['gen'] == 'c03_hinted' and not interleaved:
            n += c03_flavour_paths(ctx, r, ims)
            n += c03_existing_no_overwrite(ctx, r, ims)
        elif it.meta['gen'] == 'c03_hinted':
            # any order of the flat fields: into_existing must not write two of its members to one place (members of one tuple-shaped
            # container are numbered by their position among that container's members, however they interleave with the others)
            n += c03_existing_no_overwrite(ctx, r, ims)
        elif it.meta['gen'] == 'c03_parent' and it.shape == 'named':
            n += c03_parent_oracle(ctx, r, it, ims)
        elif it.meta['gen'] == 'c03_bare_parent':
            pars = [f for f in it.members if any(a.name == 'parent' for a in f.attrs)]
            named = it.shape == 'named'
            for key, imp in ims:
                if key is None:
                    continue
                kind, fallible, cp, _ = key
                n += 1
                text = oracles.sem_text(oracles.fn_block(imp))
                if any(a.params.startswith('return') for a in it.attrs if hasattr(a, 'params')):
                    continue
                for j, f in enumerate(it.members):
                    if f not in pars:
                        continue
                    own = f.name if named else str(j)
                    if kind.startswith('from'):
                        conv = {(False, False): '(&value).into()', (True, False): 'value.into()', (False, True): '(&value).try_into()?', (True, True): 'value.try_into()?'}[(kind == 'from_ref', fallible)]
                        ok = (('%s:%s' % (own, conv)) in text) if named else (conv in text)
                        why = 'a bare #[parent] field must be produced from the whole counterpart (%s)' % conv
                    else:
                        tgt = 'other' if kind.endswith('existing') else '&mutobj'
                        recv = ('self.%s' % own) if kind.startswith('owned') else ('(&(self.%s))' % own)
                        call = '%s.%sinto_existing(%s)%s' % (recv, 'try_' if fallible else '', tgt, '?' if fallible else '')
                        ok = call in text
                        why = 'a bare #[parent] field must be poured into the counterpart through its own into_existing conversion (%s)' % call
                    if not ok:
                        ctx.report(r, 'conversion (%s): %s; body: %s' % (kind, why, text[:400]), 'syn-parsed body', key='bare-parent')
    ctx.cov['impls_checked'] = n
    return ctx.finish()


# ---------------------------------------------------------------------------------------------- C11
def split_top(s, sep=','):
    out, depth, cur = [], 0, ''
    for ch in s:
        if ch in '<([{':
            depth += 1
        elif ch in '>)]}':
            depth -= 1
        if ch == sep and depth == 0:
            out.append(cur)
            cur = ''
        else:
            cur += ch
    if cur:
        out.append(cur)
    return out


def c11_problems(it, key, imp):
    kind, fallible, cp, self_ty = key
    meta = it.meta
    probs = []
    gens = [oracles.sval(x) for x in (oracles.node(imp, 'generics') or ['generics'])[1:]]
    wheres = [oracles.sval(x) for x in (oracles.node(imp, 'where') or ['where'])[1:]]
    own_lts = meta['lts']
    m = re.search(r'<(.*)>$', cp)
    cp_args = split_top(m.group(1)) if m else []
    cp_lts_all = [a[1:] for a in cp_args if a.startswith("'")]
    # 'static and '_ are not lifetime parameters: declaring them (or bounding 'o2o by them) makes the impl ill-formed (E0262)
    cp_lts = [l for l in cp_lts_all if l not in ('static', '_')]
    decl_names = []
    for g in gens:
        if g.startswith("'"):
            decl_names.append(g.split(':')[0])
        elif g.startswith('const'):
            decl_names.append(re.match(r'const(\w+):', g).group(1))
        else:
            decl_names.append(re.match(r'(\w+)', g).group(1))
    dups = sorted(set(x for x in decl_names if decl_names.count(x) > 1))
    taken_o2o = 'o2o' in own_lts or 'o2o' in cp_lts_all or any(re.search(r"'o2o\b", a) for a in cp_args)
    if taken_o2o:
        # the `fresh` lifetime is not fresh when a lifetime of the deriving type or of the counterpart path is itself called 'o2o
        if dups == ["'o2o"]:
            return ["o2o-not-fresh: 'o2o is already a lifetime of the mapped types and is declared a second time on the impl (impl generics %r)" % gens]
        if not dups:
            return []          # no by-reference impl with relevant lifetimes: nothing was added
    if dups:
        probs.append('declared more than once on the impl: %s (impl generics %r)' % (dups, gens))
    # the deriving type's parameters are declared (with their bounds, without defaults)
    for d in meta['decl']:
        d0 = oracles.nsp(d.split('=')[0])
        if d0 not in [oracles.nsp(g) for g in gens]:
            probs.append('parameter `%s` of the deriving type is not declared on the impl as written (impl generics %r)' % (d, gens))
    # ... and applied in argument form
    want_self = 'S' + (('<%s>' % ','.join(meta['names'])) if meta['names'] else '')
    if self_ty != want_self:
        probs.append('the deriving type is applied as `%s`, expected `%s`' % (self_ty, want_self))
    # lifetimes nested inside the type arguments of the counterpart path (`A<&'x str>`, `A<Cow<'x, str>>`) belong to the path too
    nested = sorted(set(l for a in cp_args if not a.startswith("'") for l in re.findall(r"'(\w+)", a) if l not in ('static', '_')))
    for lt in nested:
        if "'" + lt not in decl_names:
            probs.append("nested-lifetime '%s of the counterpart path is not declared" % lt)
    for bad in ("'static", "'_"):
        if bad in decl_names:
            probs.append("%s is declared as a lifetime parameter of the impl (impl generics %r)" % (bad, gens))
    # counterpart-only lifetimes are declared
    for lt in cp_lts:
        if "'" + lt not in decl_names:
            probs.append("lifetime '%s of the counterpart path is not declared" % lt)
    # by-reference conversions: 'o2o outlives the relevant lifetimes and is the lifetime of the borrow
    is_ref = kind in ('from_ref', 'ref_into', 'ref_into_existing')
    rel = own_lts if kind == 'from_ref' else (cp_lts if is_ref else [])
    o2o = [g for g in gens if g.startswith("'o2o")]
    if is_ref and rel:
        want = "'o2o:" + '+'.join("'" + l for l in rel)
        if [oracles.nsp(x) for x in o2o] != [want]:
            probs.append("expected the fresh lifetime declaration `%s`, found %r" % (want, o2o))
        tr = oracles.sval(imp[1])
        sty = oracles.sval(imp[2])
        borrowed = tr if kind == 'from_ref' else sty
        if "&'o2o" not in borrowed:
            probs.append("the borrow is not tied to 'o2o (%s)" % borrowed)
    elif o2o:
        probs.append("unexpected 'o2o declaration %r" % o2o)
    # where clause: dedicated to the counterpart, else the default one
    w = meta['where']
    want_w = w.get(cp, w.get(None))
    want_preds = [oracles.nsp(x) for x in split_top(want_w)] if want_w else []
    # the deriving type's own predicates come first, in order (the impl must repeat them to type-check)
    own = [oracles.nsp(x) for x in split_top(meta.get('own_where') or '') if x.strip()]
    want_preds = own + want_preds
    if [oracles.nsp(x) for x in wheres] != want_preds:
        probs.append('where clause: expected %r, found %r' % (want_preds, wheres))
    return probs


def obs_C11(s, rec=None):
    c = vlib.outcome_class(s)
    if c != 'ok':
        return vlib.obs_msgs(s)
    return ('ok', tuple(vlib.header_of(i) for i in vlib.split_impls(vlib.ok_tokens(s))))


def prop_C11(ctx):
    ctx.build()
    q = ctx.tier == 'quick'
    recs = ctx.run_set('generics', gen.c11_cases(ctx.rng, 5000 if q else 50000), obs_C11, sem=True)
    n = 0
    for r in recs:
        if vlib.outcome_class(r['out']) != 'ok' or not r.get('sem'):
            continue
        for key, imp in oracles.sem_impls(r['sem']) or []:
            if key is None:
                continue
            n += 1
            for p in c11_problems(r['item'], key, imp):
                ctx.report(r, 'impl (%s, fallible=%s, %s): %s' % (key[0], key[1], key[2], p), 'header facts read off the syn-parsed impl',
                           key='nested-lifetime' if p.startswith('nested-lifetime') else ('o2o-not-fresh' if p.startswith('o2o-not-fresh') else 'header:' + p.split(' ')[0]))
    ctx.cov['impl_headers_checked'] = n
    generic_sets(ctx, ['corpus', 'comp'], obs_C11)
    return ctx.finish()


# ---------------------------------------------------------------------------------------------- C17
TRAIT_FN = {'::core::convert::From': ('from', False), '::core::convert::TryFrom': ('try_from', True), '::core::convert::Into': ('into', False),
            '::core::convert::TryInto': ('try_into', True), 'o2o::traits::IntoExisting': ('into_existing', False),
            'o2o::traits::TryIntoExisting': ('try_into_existing', True)}


def shape_problems(shape):
    t = oracles.sx(shape)
    if not t:
        return ['no output']
    if t[0] == 'shape-parse-fail':
        return ['the output is not a sequence of Rust items: ' + oracles.sval(t[1])[:200]]
    probs = []
    for item in t[1:]:
        if not (isinstance(item, list) and item[0] == 'impl'):
            probs.append('an item that is not an impl')
            continue
        tr = oracles.sval(item[1])
        m = re.match(r'^(::core::convert::\w+|o2o::traits::\w+)<(.*)>$', tr, flags=re.S)
        if not m or m.group(1) not in TRAIT_FN:
            probs.append('implements `%s`, not one of the six conversion traits' % tr[:80])
            continue
        fname, fallible = TRAIT_FN[m.group(1)]
        arg = m.group(2)
        self_ty = oracles.sval(item[2])
        fns = [x for x in item[3:] if isinstance(x, list) and x[0] == 'fn']
        tys = [x for x in item[3:] if isinstance(x, list) and x[0] == 'type']
        others = [x for x in item[3:] if isinstance(x, list) and x[0] == 'other-impl-item']
        if len(fns) != 1 or others:
            probs.append('%d methods / %d other items in the impl of %s' % (len(fns), len(others), m.group(1)))
            continue
        f = fns[0]
        if f[1] != fname:
            probs.append('the method of %s is called `%s`' % (m.group(1), f[1]))
        has_err = [x for x in tys if x[1] == 'Error']
        if fallible != bool(has_err) or len(tys) != len(has_err):
            probs.append('`type Error` %s in the impl of %s' % ('missing' if fallible else 'present', m.group(1)))
        err = oracles.sval(has_err[0][2]) if has_err else None
        args = oracles.node(f, 'args')[1:]
        ret = oracles.sval(oracles.node(f, 'ret')[1])
        def res(t):
            return '::core::result::Result<%s,%s>' % (t, err) if fallible else t
        if fname in ('from', 'try_from'):
            ok = len(args) == 1 and args[0][0] == 'arg' and oracles.sval(args[0][1]) == 'value' and oracles.sval(args[0][2]) == arg and ret == res(self_ty)
        elif fname in ('into', 'try_into'):
            ok = len(args) == 1 and args[0][0] == 'self' and args[0][1] == 'val' and ret == res(arg)
        else:
            ok = len(args) == 2 and args[0][0] == 'self' and args[0][1] == 'val' and args[1][0] == 'arg' and oracles.sval(args[1][1]) == 'other' \
                and oracles.sval(args[1][2]) == '&mut' + arg and ret == (res('()') if fallible else '')
        if not ok:
            probs.append('the signature of %s is not the documented one: args %r ret %r' % (fname, args, ret))
        for k in ('generics', 'asyncness', 'unsafety'):
            n = oracles.node(f, k)
            if n is not None and n[1] != '0':
                probs.append('the method has %s' % k)
    return probs


def obs_shape(s, rec=None):
    c = vlib.outcome_class(s)
    if c != 'ok':
        return vlib.obs_msgs(s)
    sh = rec.get('shape') if s is rec.get('out') else rec.get('mshape')
    return ('ok', sh)


def c17_cell(it):
    if it is None:
        return None
    tr = [a for a in it.attrs if isinstance(a, gen.Attr) and a.name in gen.TRAIT_NAMES]
    if it.kind == 'enum' and any('existing' in a.name for a in tr):
        return 'enum-into-existing'
    # configurations whose instructions contradict the shape they are applied to (validation does not look at these)
    if it.kind == 'struct' and it.shape == 'tuple' and any(a.name.startswith('ghosts') and '@' in (a.args or '') and re.search(r'@[a-z]', a.args) for a in it.attrs):
        return 'incoherent-config'      # a named #[ghosts(p@name: ..)] entry inside a nested struct that a tuple struct renders in tuple form
    bare_parent = any(a.name == 'parent' and (a.args is None or a.args == '') for m in it.members for a in getattr(m, 'attrs', []) if isinstance(a, gen.Attr))
    if any(('..' in (getattr(a, 'params', '') or '')) and ('existing' in a.name or (getattr(a, 'hint', '') == 'as ()') or it.shape == 'tuple' or bare_parent) for a in tr):
        return 'incoherent-config'      # `..update` on into_existing / on a tuple-form literal / on the assignment-style body a bare #[parent] forces
    if it.kind == 'struct' and it.shape == 'tuple' and any(a.name == 'parent' and a.args and re.search(r'\b[a-z]\w*\b', re.sub(r'\b(parent|map)\b', '', a.args))
                                                             for m in it.members for a in m.attrs if isinstance(a, gen.Attr)):
        return 'incoherent-config'      # named sub-members of a parameterised #[parent] on a tuple struct
    if it.kind == 'struct' and it.shape == 'named' and any(a.name == 'parent' and a.args and re.search(r'(^|[\s,\]])\d+\s*(,|$|:)', a.args)
                                                             for m in it.members for a in m.attrs if isinstance(a, gen.Attr)):
        return 'incoherent-config'      # positional sub-members of a parameterised #[parent] on a named struct
    has_parent = any(a.name == 'parent' and (a.args is None or a.args == '') for m in it.members for a in getattr(m, 'attrs', []) if isinstance(a, gen.Attr))
    if has_parent and any('return' in (getattr(a, 'params', '') or '') for a in tr):
        return 'qret-parent'
    if has_parent and any(a.name == 'child' for m in it.members for a in getattr(m, 'attrs', []) if isinstance(a, gen.Attr)) \
            and any(set(k for k, _ in gen.kinds_of(a.name)) & {'owned_into', 'ref_into'} for a in tr):
        return 'parent-with-child'      # into() with a bare #[parent] (assignment-style body) and a flattened #[child] member: finding F-17f
    return None


def prop_C17(ctx):
    ctx.build()
    q = ctx.tier == 'quick'
    k = 1 if q else 8
    items = gen.c01_cases(ctx.rng, 1200 * k) + gen.c02_cases(ctx.rng, 1200 * k) + gen.c03_cases(ctx.rng, 1000 * k) + gen.c03_hinted_cases(ctx.rng, 600 * k) + gen.c07_cases(ctx.rng, 800 * k) \
        + gen.c08_cases(ctx.rng, 1200 * k) + gen.c09_cases(ctx.rng, 800 * k) + gen.c11_cases(ctx.rng, 800 * k) + gen.c17_enum_existing(ctx.rng, 60 * k) \
        + gen.c07_parent_cases(ctx.rng, 500 * k)
    recs = ctx.run_set('accepted_shapes', items, obs_shape, sem=True)
    recs += ctx.run_set('grids', sample(ctx.rng, gen.grid_struct_lines(), 800 * k) + gen.grid_trait_instrs(), obs_shape, sem=True)
    n = 0
    for r in recs:
        if vlib.outcome_class(r['out']) != 'ok':
            continue
        n += 1
        probs = shape_problems(r.get('shape'))
        if probs:
            it = r.get('item')
            if it is not None and it.meta.get('grid') == 'trait_instr' and str(it.meta.get('counterpart', '')).startswith('(') and it.kind == 'enum':
                continue     # an enum mapped to a bare tuple: the counterpart cannot have variants; the embedded path is not well-formed
            ctx.report(r, 'accepted input whose expansion is not a sequence of well-shaped impl items: ' + '; '.join(probs[:3]), 'syn::parse_str::<File> + per-item inspection',
                       key=c17_cell(it) or 'shape')
    ctx.cov['accepted_outputs_inspected'] = n
    return ctx.finish()


PROPS = {
    'C17': prop_C17,
    'C11': prop_C11,
    'C03': prop_C03,
    'C09': prop_C09,
    'C02': prop_C02,
    'C08': prop_C08,
    'C07': prop_C07,
    'C01': prop_C01,
    'C15': prop_C15,
    'C14': prop_C14,
    'C06': prop_C06,
    'C05': prop_C05,
    'C04': prop_C04,
    'C10': prop_C10,
    'C12': prop_C12,
    'C13': prop_C13,
    'C20': prop_C20,
    'C16': prop_C16,
    'C18': prop_C18,
    'C19': prop_C19,
}


def source_changed():
    """files of /repo whose content differs from the sources the model was written against (tools/source_pins.json)"""
    import hashlib
    try:
        pins = json.load(open(os.path.join(vlib.VERIF, 'tools', 'source_pins.json')))['files']
    except Exception:
        return []
    out = []
    for f, h in pins.items():
        try:
            if hashlib.sha256(open(os.path.join(vlib.REPO, f), 'rb').read()).hexdigest() != h:
                out.append(f)
        except OSError:
            out.append(f)
    return out


def replay(prop, path):
    """./check <id> --replay <file>: run the recorded failing inputs through the implementation built from /repo's current tree;
    the violation is reproduced when an input still gives the outcome that was judged a violation"""
    data = json.load(open(path))
    vio = data.get('violations') or []
    if not vio:
        print('replay file names no failing input (%s): re-running the check' % ('; '.join(b.get('kind', '?') for b in data.get('no_longer_checks', [])) or 'n/a'))
        return None
    vlib.build_harness(('s1',))
    cases = [('replay-%d' % i, v['input']) for i, v in enumerate(vio)]
    h = vlib.run_impl(cases, 's1', os.path.join(vlib.BUILD, 'tmp', prop, 'replay'), tag='replay')
    n = 0
    for (cid, text), v in zip(cases, vio):
        now = (h.get(cid, {}).get('OUT') or '')
        if now[:4000] == (v.get('impl_outcome') or '')[:4000]:
            n += 1
            log('  reproduced:', v.get('why', '')[:300], '\n', text[:400])
    if n:
        print('VIOLATION property=%s replay=%s' % (prop, path))
        return 1
    log('%s: none of the %d recorded inputs gives the recorded outcome any more' % (prop, len(cases)))
    return 0


def main(argv):
    if not argv:
        print('usage: check <property> [--tier quick|thorough] [--replay FILE]')
        return 2
    prop = argv[0]
    tier = os.environ.get('VERIF_TIER', 'quick')
    if '--tier' in argv:
        tier = argv[argv.index('--tier') + 1]
    seed = int(os.environ.get('VERIF_SEED', '20260926'))
    if prop not in PROPS:
        print('unknown property', prop)
        return 2
    if '--replay' in argv:
        try:
            rc = replay(prop, argv[argv.index('--replay') + 1])
        except vlib.BuildError as e:
            log('BUILD ERROR:', str(e)[:2000])
            rc = None
        if rc is not None:
            return rc
    # When the sources differ from the ones the model was written against and the first pass finds no concrete failing input,
    # the quick tier searches on with further seeds (same sizes): a change that needs a rare input is the expected case then.
    changed = source_changed() if tier == 'quick' else []
    passes = [seed] + ([seed + 1, seed + 2] if changed else [])
    first_rc = None
    first_ev = None
    for i, sd in enumerate(passes):
        ctx = Ctx(prop, tier, sd)
        if changed:
            ctx.cov['sources_changed'] = changed
            ctx.cov['search_pass'] = i + 1
        try:
            rc = PROPS[prop](ctx)
        except vlib.BuildError as e:
            # the framework itself could not be built: not a verdict about the property
            log('BUILD ERROR:', str(e)[:4000])
            vlib.write_evidence(prop, tier, sd, 'proof', {'evaluations': 1, 'distinct_nontrivial': 0, 'obligations': 1, 'discharged': 0,
                                'checker_cmd': 'build failed', 'trusted_base': [], 'explanation': str(e)[:2000]}, [], 1)
            path = vlib.write_replay(prop, {'property': prop, 'build_error': str(e)[:6000]})
            print('VIOLATION property=%s replay=%s no-failing-input-found' % (prop, path))
            return 1
        if first_rc is None:
            first_rc = rc
            try:
                first_ev = open(os.path.join(vlib.VERIF, 'evidence', prop + '.json')).read()
            except OSError:
                first_ev = None
        if ctx.violations:
            return rc            # a concrete failing input: decided
        if i + 1 < len(passes):
            log('%s: sources changed (%s), no failing input in pass %d: searching on with seed %d' % (prop, ', '.join(changed), i + 1, passes[i + 1]))
    if first_rc and not rc and first_ev is not None:
        # the verdict is the first pass's (a tie that no longer checks, no failing input found by any pass): so is the evidence
        open(os.path.join(vlib.VERIF, 'evidence', prop + '.json'), 'w').write(first_ev)
    return 1 if first_rc else (rc or 0)
