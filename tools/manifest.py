#!/usr/bin/env python3
"""Regenerates MANIFEST.json from the table below (kept next to the checks so they stay in step)."""
import json, os, sys
sys.path.insert(0, os.path.dirname(os.path.abspath(__file__)))
V = os.path.dirname(os.path.dirname(os.path.abspath(__file__)))
props = [json.loads(l) for l in open(os.path.join(V, 'properties.jsonl'))]

CLAIMS = {}   # id -> dict(text, note, technique, design_ref)

def claim(i, text, note, technique, ref):
    CLAIMS[i] = dict(text=text, note=note, technique=technique, ref=ref)

exec(open(os.path.join(V, 'tools', 'claims.py')).read())

checks = []
na = []
for p in props:
    i = p['id']
    if i in CLAIMS:
        c = CLAIMS[i]
        checks.append({
            'property_id': i,
            'quick_cmd': './check %s --tier quick' % i,
            'thorough_cmd': './check %s --tier thorough' % i,
            'evidence_file': 'evidence/%s.json' % i,
            'replay_cmd_template': './check %s --replay {path}' % i,
            'engine': 'coq-model',
            'level_claimed': {'category': 'proof', 'text': c['text'], 'design_ref': c['ref']},
            'level_note': c['note'],
            'technique': c['technique'],
        })
    else:
        na.append({'property_id': i, 'reason': 'not claimed at this commit: its check is still being built (see DESIGN.md section 6); machine-checked proof in Coq applies to it'})
M = {
    'version': 1,
    'setup_cmd': 'python3 tools/setup.py',
    'hooks': {'guard': 'o2o_verif',
              'enable': 'RUSTFLAGS="--cfg o2o_verif" when building /repo/o2o-impl into the harness (no hook commits exist: derive() is already public and pure)',
              'baseline_off_cmd': 'cd /repo && CARGO_NET_OFFLINE=true cargo nextest run --workspace --no-fail-fast --offline',
              'source_commits': [], 'add_only': True},
    'engines': [{'name': 'coq-model', 'path': 'coq/', 'serves_properties': sorted(CLAIMS),
                 'kind_free_text': 'hand-written Gallina model of o2o-impl (coq/Model) + tables/skeletons regenerated from /repo on every run (tools/translate.py -> coq/Gen), theorems in coq/Lemmas and coq/Props; the model is extracted to OCaml and compared with the implementation (harness/, both syn back-ends) on generated inputs'}],
    'checks': checks,
    'notes': 'DESIGN.md explains the approach; known_findings.json lists recorded and fixed defects; seeded/ holds the seeded changes used to test the checks.',
    'not_applicable': na,
}
json.dump(M, open(os.path.join(V, 'MANIFEST.json'), 'w'), indent=1)
print(len(checks), 'claimed;', len(na), 'not claimed')
