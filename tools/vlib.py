"""Shared machinery of ./check: builds (harness, Coq, extracted driver), running cases through the
implementation and the model, observations, comparison, evidence and verdict."""
import os, sys, re, json, time, subprocess, hashlib, fcntl, shutil, collections, random

VERIF = os.path.dirname(os.path.dirname(os.path.abspath(__file__)))
REPO = os.environ.get('O2O_REPO', '/repo')
BUILD = os.path.join(VERIF, 'build')
COQ = os.path.join(VERIF, 'coq')
NPROC = 16
ENV = dict(os.environ, CARGO_NET_OFFLINE='true')
ENV['RUSTFLAGS'] = (ENV.get('RUSTFLAGS', '') + ' --cfg o2o_verif --cap-lints allow').strip()

T0 = time.time()


def log(*a):
    sys.stderr.write(' '.join(str(x) for x in a) + '\n')
    sys.stderr.flush()


def run(cmd, cwd=None, timeout=1800, env=None, inp=None):
    p = subprocess.run(cmd, cwd=cwd, env=env or ENV, input=inp, stdout=subprocess.PIPE, stderr=subprocess.STDOUT,
                       timeout=timeout, text=True, errors='replace')
    return p.returncode, p.stdout


class Lock:
    def __init__(self, name):
        os.makedirs(BUILD, exist_ok=True)
        self.path = os.path.join(BUILD, name + '.lock')

    def __enter__(self):
        self.f = open(self.path, 'w')
        fcntl.flock(self.f, fcntl.LOCK_EX)
        return self

    def __exit__(self, *a):
        fcntl.flock(self.f, fcntl.LOCK_UN)
        self.f.close()


class BuildError(Exception):
    pass


# ------------------------------------------------------------------ builds
def build_harness(backends=('s1',)):
    out = {}
    with Lock('cargo'):
        for crate, feats, tdir in [('harness', 's1', 'h1'), ('harness', 's2', 'h2'), ('shape', None, 'shape')]:
            if crate == 'harness' and feats not in backends:
                continue
            if crate == 'shape' and 'shape' not in backends:
                continue
            cdir = os.path.join(VERIF, crate)
            lock = os.path.join(cdir, 'Cargo.lock')
            src_lock = os.path.join(REPO, 'Cargo.lock')
            if os.path.exists(src_lock) and (not os.path.exists(lock) or open(lock).read() != open(src_lock).read()):
                shutil.copy(src_lock, lock)
            cmd = ['cargo', 'build', '--offline', '--target-dir', os.path.join(BUILD, tdir)]
            if feats:
                cmd += ['--features', feats]
            rc, o = run(cmd, cwd=cdir, timeout=1200)
            if rc != 0:
                raise BuildError('cargo build %s %s failed:\n%s' % (crate, feats, o[-3000:]))
            out[tdir] = True
    return out


HARNESS = {'s1': os.path.join(BUILD, 'h1/debug/o2o-verif-harness'), 's2': os.path.join(BUILD, 'h2/debug/o2o-verif-harness')}
SHAPE = os.path.join(BUILD, 'shape/debug/o2o-verif-shape')
DRIVER = os.path.join(BUILD, 'extracted/driver')


def translate():
    """regenerate coq/Gen/*.v from the working tree; returns (ok, message, summary)"""
    rc, o = run([sys.executable, os.path.join(VERIF, 'tools/translate.py')], timeout=120)
    if rc != 0:
        return False, o.strip()[-2000:], {}
    try:
        return True, '', json.loads(o.strip().splitlines()[-1])
    except Exception:
        return True, '', {}


def coq_make(targets=None, timeout=1500):
    """make the Model/Gen/Lemmas .vo files (full .vo build). returns (ok, output)"""
    with Lock('coq'):
        mk = os.path.join(COQ, 'Makefile')
        proj = os.path.join(COQ, '_CoqProject')
        if not os.path.exists(mk) or os.path.getmtime(mk) < os.path.getmtime(proj):
            rc, o = run(['coq_makefile', '-f', '_CoqProject', '-o', 'Makefile'], cwd=COQ)
            if rc != 0:
                return False, o
        cmd = ['timeout', str(timeout), 'make', '-j%d' % NPROC] + (targets or [])
        rc, o = run(cmd, cwd=COQ, timeout=timeout + 60)
        return rc == 0, o


def file_hash(paths):
    h = hashlib.sha256()
    for p in sorted(paths):
        h.update(p.encode())
        with open(p, 'rb') as f:
            h.update(f.read())
    return h.hexdigest()


def model_sources():
    out = []
    for d in ('Model', 'Gen', 'Extract'):
        for f in sorted(os.listdir(os.path.join(COQ, d))):
            if f.endswith('.v'):
                out.append(os.path.join(COQ, d, f))
    out.append(os.path.join(VERIF, 'ocaml/driver.ml'))
    return out


def build_driver():
    """extract the model and compile the OCaml driver (cached by content hash)"""
    with Lock('driver'):
        ex = os.path.join(BUILD, 'extracted')
        os.makedirs(ex, exist_ok=True)
        h = file_hash(model_sources())
        stamp = os.path.join(ex, 'stamp')
        if os.path.exists(stamp) and open(stamp).read() == h and os.path.exists(DRIVER):
            return True, 'cached'
        rc, o = run(['timeout', '600', 'coqc', '-Q', os.path.join(COQ, 'Model'), 'O2o.Model', '-Q', os.path.join(COQ, 'Gen'), 'O2o.Gen',
                     os.path.join(COQ, 'Extract/Extract.v')], cwd=ex, timeout=700)
        if rc != 0:
            return False, 'extraction failed:\n' + o[-3000:]
        shutil.copy(os.path.join(VERIF, 'ocaml/driver.ml'), os.path.join(ex, 'driver.ml'))
        rc, o = run(['ocamlfind', 'ocamlopt', '-w', '-a', 'model.mli', 'model.ml', 'driver.ml', '-o', 'driver'], cwd=ex, timeout=600)
        if rc != 0:
            return False, 'ocaml build failed:\n' + o[-3000:]
        open(stamp, 'w').write(h)
        return True, 'built'


FORBIDDEN = re.compile(r'\b(Admitted|admit|Axiom|Axioms|Parameter|Parameters|Conjecture|Conjectures|Hypothesis|Hypotheses|Variable|Variables)\b|Unset\s+Guard|bypass_check|type-in-type|impredicative-set|Admit\s+Obligations|Unset\s+Universe\s+Checking|Unset\s+Positivity')


def hygiene():
    """grep the development for forbidden declarations; Variable/Hypothesis are allowed inside Sections only"""
    bad = []
    for root, _, files in os.walk(COQ):
        for f in files:
            if not f.endswith('.v'):
                continue
            p = os.path.join(root, f)
            text = open(p).read()
            # strip comments (non-nested is enough for our files) and strings
            t = re.sub(r'\(\*.*?\*\)', lambda m: ' ' * len(m.group(0)), text, flags=re.S)
            t = re.sub(r'"[^"]*"', lambda m: '"' + ' ' * (len(m.group(0)) - 2) + '"', t)
            depth = 0
            for ln, line in enumerate(t.split('\n'), 1):
                if re.match(r'\s*Section\b', line):
                    depth += 1
                for m in FORBIDDEN.finditer(line):
                    w = m.group(0)
                    if re.match(r'(Variable|Variables|Hypothesis|Hypotheses)$', w) and depth > 0:
                        continue
                    bad.append('%s:%d: %s' % (os.path.relpath(p, VERIF), ln, w))
                if re.match(r'\s*End\b', line) and depth > 0:
                    depth -= 1
    return bad


ALLOWED_AXIOMS = set()   # none: every property theorem must be closed under the global context


def check_props(prop, timeout=600):
    """compile coq/Props/<prop>.v directly, collect theorems and their Print Assumptions output"""
    path = os.path.join(COQ, 'Props', prop + '.v')
    if not os.path.exists(path):
        return {'ok': True, 'theorems': [], 'output': '', 'missing': True}
    args = ['timeout', str(timeout), 'coqc']
    for d, n in (('Model', 'O2o.Model'), ('Gen', 'O2o.Gen'), ('Lemmas', 'O2o.Lemmas'), ('Props', 'O2o.Props')):
        args += ['-Q', os.path.join(COQ, d), n]
    with Lock('props-' + prop):
        rc, o = run(args + [path], cwd=COQ, timeout=timeout + 60)
    text = open(path).read()
    thms = re.findall(r'^(?:Theorem|Lemma|Corollary)\s+(\w+)', text, flags=re.M)
    # Print Assumptions output: "Closed under the global context" or "Axioms:\n name : type"
    closed = o.count('Closed under the global context')
    axioms = re.findall(r'^Axioms:\n((?:.+\n?)+?)(?=\n\S|\Z)', o, flags=re.M)
    n_print = len(re.findall(r'^Print\s+Assumptions', text, flags=re.M))
    ok = rc == 0 and not axioms and closed == n_print and n_print >= len(thms)
    return {'ok': ok, 'rc': rc, 'theorems': thms, 'closed': closed, 'print_assumptions': n_print,
            'axioms': axioms, 'output': o[-4000:]}


def coqchk(prop, timeout=1500):
    """thorough tier: re-check Props/<prop>.vo and everything it depends on with the independent checker; collect the axiom summary"""
    args = ['timeout', str(timeout), 'coqchk', '-o', '-silent']
    for d, n in (('Model', 'O2o.Model'), ('Gen', 'O2o.Gen'), ('Lemmas', 'O2o.Lemmas'), ('Props', 'O2o.Props')):
        args += ['-Q', os.path.join(COQ, d), n]
    with Lock('coq'):
        rc, o = run(args + ['O2o.Props.' + prop], cwd=COQ, timeout=timeout + 60)
    m = re.search(r'\* Axioms:\s*(.*?)\n\s*\n', o, flags=re.S)
    axioms = m.group(1).strip() if m else '?'
    unsafe = re.findall(r'\* (?:Constants/Inductives relying on [^:]+|Inductives whose positivity is assumed):\s*(.*?)\n\s*\n', o, flags=re.S)
    ok = rc == 0 and axioms == '<none>' and all(u.strip() == '<none>' for u in unsafe)
    return {'ok': ok, 'rc': rc, 'axioms': axioms, 'output': o[-1500:] if not ok else ''}


# ------------------------------------------------------------------ running cases
def write_cases(path, cases):
    with open(path, 'w') as f:
        for cid, text in cases:
            f.write('%%%%%%%% %s\n%s\n' % (cid, text))


def parse_lines(text):
    cases = collections.OrderedDict()
    cur = None
    for line in text.split('\n'):
        if line.startswith('CASE '):
            cur = line[5:]
            cases.setdefault(cur, {})
        elif cur is not None and line:
            k, _, v = line.partition(' ')
            cases[cur][k] = v
    return cases


def run_impl(cases, backend='s1', workdir=None, flags=(), tag='cases'):
    """cases: list of (id, text).  returns OrderedDict id -> {RAW, OUT, ...}"""
    os.makedirs(workdir, exist_ok=True)
    inp = os.path.join(workdir, tag + '.txt')
    write_cases(inp, cases)
    def harness(path, n):
        # an expansion that never returns is a violation like one that dies: the watchdog kills the process and the culprit is found
        # the same way (the case with a RAW line and no OUT line)
        limit = max(240, int(0.05 * n))
        def limits():
            import resource
            resource.setrlimit(resource.RLIMIT_AS, (6 << 30, 6 << 30))      # an expansion that allocates without bound dies instead of taking the machine down
        pr = subprocess.Popen([HARNESS[backend], path] + list(flags), stdout=subprocess.PIPE, stderr=subprocess.PIPE, preexec_fn=limits)
        try:
            so, se = pr.communicate(timeout=limit)
            return pr.returncode, so, se
        except subprocess.TimeoutExpired:
            pr.kill()
            so, se = pr.communicate()
            return -999, so, ('no outcome after %d s: the expansion does not terminate' % limit).encode()

    class _P:
        pass
    p = _P()
    p.returncode, p.stdout, p.stderr = harness(inp, len(cases))
    out = p.stdout.decode(errors='surrogateescape')
    crashes = 0
    todo = list(cases)
    while p.returncode != 0:
        # the process died inside derive() (stack overflow, abort, exit: nothing catch_unwind can turn into a value).  stdout is
        # line-buffered: the case that was being expanded is the first one without an OUT line.  It is recorded as a panic with the
        # signal as payload - an expansion that takes the process down is C16's subject like any panic - and the run resumes after it
        crashes += 1
        done = parse_lines(out)
        culprit = None
        for i, (cid, text) in enumerate(todo):
            if 'OUT' not in done.get(cid, {}):
                culprit = i
                break
        if culprit is None:
            raise BuildError('harness %s failed: rc=%s %s' % (backend, p.returncode, p.stderr.decode(errors='replace')[-2000:]))
        cid = todo[culprit][0]
        why = (p.stderr.decode(errors='replace').strip().splitlines() or ['?'])[-1][:160].replace('"', "'").replace('\\', '/')
        keep = []
        for line in out.split('\n'):
            keep.append(line)
        # drop the partial record of the culprit, then write a complete one
        idx = out.rfind('CASE %s\n' % cid)
        head = out[:idx] if idx >= 0 else out
        partial = parse_lines(out[idx:]) .get(cid, {}) if idx >= 0 else {}
        rec = 'CASE %s\n' % cid + ''.join('%s %s\n' % (k, v) for k, v in partial.items() if k != 'OUT')
        rec += 'OUT (panic "process %s: %s")\n' % ('hung' if p.returncode == -999 else 'died (rc=%s)' % p.returncode, why)
        out = head + rec
        todo = todo[culprit + 1:]
        if not todo or crashes >= 12:
            break          # enough culprits: the rest of this set is left unexpanded (records without an outcome are skipped)
        if p.returncode == -999 and crashes >= 2:
            break          # every hang costs the whole watchdog interval
        write_cases(inp + '.rest', todo)
        p.returncode, p.stdout, p.stderr = harness(inp + '.rest', len(todo))
        out += p.stdout.decode(errors='surrogateescape')
    with open(os.path.join(workdir, tag + '.' + backend + '.out'), 'w', errors='surrogateescape') as f:
        f.write(out)
    return parse_lines(out)


def run_model(workdir, backend='s1', tag='cases', with_str=False):
    src = os.path.join(workdir, tag + '.' + backend + '.out')
    p = subprocess.run([DRIVER, backend, src] + (['str'] if with_str else []), stdout=subprocess.PIPE, stderr=subprocess.PIPE, timeout=3600)
    if p.returncode != 0:
        raise BuildError('driver failed: rc=%s %s' % (p.returncode, p.stderr.decode(errors='replace')[-2000:]))
    out = p.stdout.decode(errors='surrogateescape')
    with open(os.path.join(workdir, tag + '.' + backend + '.model'), 'w', errors='surrogateescape') as f:
        f.write(out)
    return parse_lines(out)


def run_shape(workdir, backend='s1', tag='cases', ext='.out'):
    """SHAPE/SEM (from the implementation's STR lines) or MSHAPE/MSEM (from the model's MSTR lines)"""
    src = os.path.join(workdir, tag + '.' + backend + ext)
    with open(src, 'rb') as f:
        p = subprocess.run([SHAPE], stdin=f, stdout=subprocess.PIPE, stderr=subprocess.PIPE, timeout=3600)
    if p.returncode != 0:
        raise BuildError('shape failed: rc=%s %s' % (p.returncode, p.stderr.decode(errors='replace')[-2000:]))
    return parse_lines(p.stdout.decode(errors='surrogateescape'))


# ------------------------------------------------------------------ canonical s-expressions
def parse_sexp(s):
    pos = 0
    n = len(s)

    def skip():
        nonlocal pos
        while pos < n and s[pos] in ' \t':
            pos += 1

    def parse():
        nonlocal pos
        skip()
        c = s[pos]
        if c == '(':
            pos += 1
            items = []
            while True:
                skip()
                if s[pos] == ')':
                    pos += 1
                    return items
                items.append(parse())
        if c == '"':
            pos += 1
            buf = []
            while s[pos] != '"':
                if s[pos] == '\\':
                    d = s[pos + 1]
                    buf.append({'n': '\n', 'r': '\r', 't': '\t'}.get(d, d))
                    pos += 2
                else:
                    buf.append(s[pos])
                    pos += 1
            pos += 1
            return ('str', ''.join(buf))
        st = pos
        while pos < n and s[pos] not in ' ()':
            pos += 1
        return s[st:pos]
    return parse()


SPACING = re.compile(r'\(P (.) [ja]\)')


def nospacing(s):
    return SPACING.sub(r'(P \1)', s)


def outcome_class(s):
    if s is None:
        return 'none'
    for k in ('ok', 'err', 'panic', 'oom', 'driver-error'):
        if s.startswith('(' + k):
            return k
    return '?'


def err_msgs(s):
    """messages of an (err ...) outcome; '#lib' -> None"""
    sx = parse_sexp(s)
    out = []
    for x in sx[1:]:
        if isinstance(x, tuple):
            out.append(x[1])
        else:
            out.append(None)
    return out


def panic_payload(s):
    sx = parse_sexp(s)
    return sx[1][1] if len(sx) > 1 and isinstance(sx[1], tuple) else ''


def split_impls(toks):
    """toks: parsed token list of an (ok ...) outcome -> list of impl token lists
    (each starts at optional attribute tokens, ends with the body brace group)"""
    impls = []
    cur = []
    seen_impl = False
    for t in toks:
        cur.append(t)
        if isinstance(t, list) and t[0] == 'I' and t[1] == 'impl':
            seen_impl = True
        if seen_impl and isinstance(t, list) and t[0] == 'G' and t[1] == 'b':
            impls.append(cur)
            cur = []
            seen_impl = False
    if cur:
        impls.append(cur)
    return impls


def tok_str(t):
    """compact text of a token (spacing ignored)"""
    if t[0] == 'I':
        return t[1]
    if t[0] == 'P':
        return t[1]
    if t[0] == 'L':
        return t[1][1]
    if t[0] == 'G':
        o, c = {'p': '()', 'b': '{}', 'k': '[]', 'n': ('', '')}[t[1]]
        return o + ' '.join(tok_str(x) for x in t[2:]) + c
    return '?'


def toks_text(ts):
    return ' '.join(tok_str(t) for t in ts)


def header_of(impl):
    """tokens of an impl item up to (not including) its body group, as text"""
    return toks_text(impl[:-1])


def flatten(ts, out=None):
    out = [] if out is None else out
    for t in ts:
        if t[0] == 'G':
            o, c = {'p': '()', 'b': '{}', 'k': '[]', 'n': ('', '')}[t[1]]
            if o:
                out.append(o)
            flatten(t[2:], out)
            if c:
                out.append(c)
        else:
            out.append(tok_str(t))
    return out


def idents(ts, out=None):
    out = set() if out is None else out
    for t in ts:
        if t[0] == 'I':
            out.add(t[1])
        elif t[0] == 'G':
            idents(t[2:], out)
    return out


def ok_tokens(s):
    return parse_sexp(s)[1:]


# observations -------------------------------------------------------
def obs_full(s, rec=None):
    return nospacing(s)


def obs_class(s, rec=None):
    return outcome_class(s)


def obs_msgs(s, rec=None):
    c = outcome_class(s)
    if c == 'err':
        return ('err', tuple(sorted(m if m is not None else '#lib' for m in err_msgs(s))))
    return (c,)


def obs_headers(s, rec=None):
    c = outcome_class(s)
    if c != 'ok':
        return obs_msgs(s)
    return ('ok', tuple(sorted(header_of(i) for i in split_impls(ok_tokens(s)))))


def obs_idents(s, rec=None):
    c = outcome_class(s)
    if c != 'ok':
        return (c,)
    return ('ok', tuple(sorted(idents(ok_tokens(s)))))


def obs_none(s, rec=None):
    """no token-level observation: the property's own relation is compared instead (metamorphic properties)"""
    return outcome_class(s)


def agree(impl, model, obs=obs_full, rec=None):
    """'ok' | 'oom' | 'diff' for one case under an observation (model #lib messages are wildcards)"""
    if model is None:
        return 'diff'
    mc = outcome_class(model)
    if mc == 'oom':
        return 'oom'
    ic = outcome_class(impl)
    if ic != mc:
        return 'diff'
    if ic == 'err':
        if obs is obs_class or obs is obs_none:
            return 'ok'
        a = err_msgs(impl)
        b = err_msgs(model)
        if len(a) != len(b):
            return 'diff'
        for x, y in zip(a, b):
            if y is not None and x != y:
                return 'diff'
        return 'ok'
    if ic == 'panic':
        return 'ok'
    return 'ok' if obs(impl, rec) == obs(model, rec) else 'diff'


# ------------------------------------------------------------------ known findings
def load_known(prop):
    p = os.path.join(VERIF, 'known_findings.json')
    if not os.path.exists(p):
        return []
    data = json.load(open(p))
    return [e for e in data.get('findings', []) if e.get('property') == prop and e.get('status') == 'known']


# ------------------------------------------------------------------ evidence
def write_evidence(prop, tier, seed, level, coverage, assumptions, violations, wall=None):
    os.makedirs(os.path.join(VERIF, 'evidence'), exist_ok=True)
    ev = {'property_id': prop, 'tier': tier, 'seed': int(seed), 'level': level, 'coverage': coverage,
          'assumptions': assumptions, 'wall_s': round(time.time() - T0 if wall is None else wall, 2),
          'violations': int(violations)}
    with open(os.path.join(VERIF, 'evidence', prop + '.json'), 'w') as f:
        json.dump(ev, f, indent=1, sort_keys=True)
    return ev


def write_replay(prop, payload):
    d = os.path.join(VERIF, 'evidence', 'replays')
    os.makedirs(d, exist_ok=True)
    n = 0
    while os.path.exists(os.path.join(d, '%s-%d.json' % (prop, n))):
        n += 1
    p = os.path.join(d, '%s-%d.json' % (prop, n))
    with open(p, 'w') as f:
        json.dump(payload, f, indent=1)
    return p
