#!/usr/bin/env python3
"""prints the prompt given to a mutation sub-agent for one property (property text only, nothing from /verif)"""
import json, sys
pid = sys.argv[1]
wt = sys.argv[2]
for l in open('/verif/properties.jsonl'):
    p = json.loads(l)
    if p['id'] == pid:
        break
print(f"""You are helping to test a verification effort for the Rust crate o2o (Artem-Romanenia/o2o): a derive proc-macro that parses an attribute DSL and generates From/TryFrom/Into/TryInto/IntoExisting impls between structs and enums.

You have your own scratch git worktree of the repository at {wt} (a detached checkout; work ONLY inside it; never touch /repo or /verif, and do not read anything under /verif). The sandbox has no network; use `--offline` with cargo (CARGO_NET_OFFLINE=true).

Here is a semantic property of o2o that currently holds on this tree:

  Title: {p['title']}
  Statement: {p['statement']}
  Quantified over: {p['quantifier']['text']}

Your task: write ONE realistic change (a plausible bug a maintainer could introduce in a refactor or feature addition) to the o2o source (o2o-impl/src/*.rs, o2o-macros) that BREAKS this property, while the crate still compiles and the ENTIRE existing test suite still passes unchanged. Do not edit or delete any existing test.

Requirements for the change:
 - It must need something specific to manifest: an unusual input, a particular combination of instructions, a particular ordering/interleaving of fields or instructions, a multi-step combination, or two cooperating code sites that each look fine alone. It must NOT be something ordinary use (or the existing tests) would expose at once.
 - It must genuinely violate the property as stated above (not some other property, not just a cosmetic change of tokens with the same meaning).
 - Keep it small (a few lines to a few dozen lines), and make it look like an honest mistake, not sabotage.

Read the code first (o2o-impl/src/{{ast,attr,expand,validate}}.rs, README.md, o2o-tests/tests) to find a good spot. The function `o2o_impl::expand::derive(&syn::DeriveInput) -> syn::Result<proc_macro2::TokenStream>` is the whole pipeline.

Then produce a demonstration: either a new integration test file (e.g. {wt}/o2o-tests/tests/zz_demo.rs, using #[derive(o2o::o2o)] and asserting on runtime values) or a unit test in a new file that calls o2o_impl::expand::derive on a quote!{{}} input and asserts on the output tokens/diagnostics. The demonstration must FAIL (test failure or compile error caused by the generated code) with your change and PASS without it.

Verify all of this yourself:
 1. with your change applied: `cd {wt} && CARGO_NET_OFFLINE=true cargo nextest run --workspace --no-fail-fast --offline` passes all the pre-existing tests (1268 tests; only your demo may fail);
 2. your demo fails with the change;
 3. reverting the source change while keeping the demo (`git diff -- o2o-impl o2o-macros > /tmp/x-{pid}.patch && git apply -R /tmp/x-{pid}.patch`, and afterwards `git apply /tmp/x-{pid}.patch` to restore it): the demo passes. NEVER use `git stash`: the stash is shared between all worktrees of this repository and other people are working in sibling worktrees.

Deliverables, written into {wt}/out/ (create it):
 - patch.diff : `git diff` of the source change ONLY (not the demo), applicable with `git apply` at the repository root;
 - demo/ : the demonstration file(s), plus a one-line note where they go in the tree and the command to run them;
 - notes.md : which property it breaks and why, what specific input/ordering/combination it needs in order to manifest, and what you ran (commands + observed results with and without the change).
Leave the worktree with the source change applied and the demo in place. When finished, reply with a short summary (what the change is, what triggers it, file paths of the deliverables). If after serious effort you cannot find a change that keeps all 1268 existing tests green, say so and describe the closest attempt.""")
