#!/usr/bin/env python3
"""MANIFEST.setup_cmd: build the framework from files on disk only (offline)."""
import sys, os
sys.path.insert(0, os.path.dirname(os.path.abspath(__file__)))
import vlib
vlib.build_harness(('s1', 's2', 'shape'))
ok, msg, s = vlib.translate()
print('translate', ok, msg, s)
ok, out = vlib.coq_make()
print('coq make', ok, out[-1500:] if not ok else '')
ok, msg = vlib.build_driver()
print('driver', ok, msg)
sys.exit(0 if ok else 1)
