#!/usr/bin/env python3
"""Screening of the generators (diagnostic tool, not a registered check): applies small mechanical mutations to /repo's sources one
at a time (a comparison flipped, && <-> ||, a Kind swapped, a `!` dropped, an early return removed ...), rebuilds the harness and
asks whether ANY generated input of a broad sweep makes the implementation differ from the extracted model.  A mutant that
compiles and that no generated input notices is either equivalent or points at a hole in the generators - those are listed for
inspection.  usage: mutscreen.py <n mutants> [seed]      (always leaves /repo clean; never run together with other checks)"""
import sys, os, re, random, subprocess, json, time
sys.path.insert(0, os.path.dirname(os.path.abspath(__file__)))
import vlib, gen, props

FILES = ['o2o-impl/src/expand.rs', 'o2o-impl/src/attr.rs', 'o2o-impl/src/validate.rs', 'o2o-impl/src/ast.rs']
OPS = [
    (r'==', '!='), (r'!=', '=='), (r'&&', '||'), (r'\|\|', '&&'),
    (r'\.is_some\(\)', '.is_none()'), (r'\.is_none\(\)', '.is_some()'),
    (r'Kind::OwnedInto\b', 'Kind::RefInto'), (r'Kind::RefInto\b', 'Kind::OwnedInto'), (r'Kind::FromOwned\b', 'Kind::FromRef'), (r'Kind::FromRef\b', 'Kind::FromOwned'),
    (r'Kind::OwnedIntoExisting\b', 'Kind::RefIntoExisting'), (r'Kind::RefIntoExisting\b', 'Kind::OwnedIntoExisting'),
    (r'TypeHint::Struct\b', 'TypeHint::Tuple'), (r'TypeHint::Tuple\b', 'TypeHint::Struct'), (r'TypeHint::Unspecified\b', 'TypeHint::Unit'),
    (r'\btrue\b', 'false'), (r'\bfalse\b', 'true'), (r'\bidx \+= 1;', ''), (r'\.or_else\(', '.and_then(|_| None).or_else('),
    (r'\bNamed\(', 'Unnamed('), (r'container_ty\.is_none\(\)', 'container_ty.is_some()'), (r'\bfallible\b(?!:)', '!fallible'),
    (r'\.skip_repeat\b', '.stop_repeat'), (r'\.stop_repeat\b', '.skip_repeat'), (r' \+ 1\b', ' + 2'), (r'\.first\(\)', '.last()'),
]


def code_regions(text):
    """offsets of lines that are code we model: outside #[cfg(test)] modules and comments"""
    cut = text.find('#[cfg(test)]')
    return len(text) if cut < 0 else cut


def candidates(rng):
    out = []
    for f in FILES:
        text = open(os.path.join(vlib.REPO, f)).read()
        end = code_regions(text)
        for pat, rep in OPS:
            for m in re.finditer(pat, text[:end]):
                line_start = text.rfind('\n', 0, m.start()) + 1
                line = text[line_start:text.find('\n', m.start())]
                if line.lstrip().startswith('//') or 'errors.insert' in line and pat in (r'\btrue\b', r'\bfalse\b'):
                    continue
                out.append((f, m.start(), m.end(), rep, line.strip()[:160]))
    rng.shuffle(out)
    return out


def sweep(ctx, rng, stop_at_first=False):
    sets = [('struct', gen.grid_struct_lines()), ('enum', gen.grid_enum_lines(full=False)), ('vfield', gen.grid_variant_fields()), ('trait', gen.grid_trait_instrs()),
            ('comp', gen.composites(rng, 3000)), ('c01', gen.c01_cases(rng, 1500)), ('c02', gen.c02_cases(rng, 1500)), ('c03', gen.c03_cases(rng, 2000)),
            ('hinted', gen.c03_hinted_cases(rng, 800)), ('c06', gen.c06_cases(rng, 1200)), ('c07', gen.c07_cases(rng, 1200)), ('c07p', gen.c07_parent_cases(rng, 600)),
            ('c08', gen.c08_cases(rng, 1500)), ('c09', gen.c09_cases(rng, 1200)), ('c10', gen.c10_cases(rng, 800)), ('c11', gen.c11_cases(rng, 1000)),
            ('c14m', [p[0] for p in gen.c14_member_cases(rng, 800)]), ('c14t', [p[0] for p in gen.c14_trait_cases(rng, 600)]),
            ('multi', gen.multi_trait_items(rng, 800)), ('short', gen.shortcut_items(rng, 600)), ('c19', gen.c19_cases(rng, 400)),
            ('odd', gen.odd_member_cases(rng, 1500)), ('soup', gen.soup(rng, 2500)), ('c15', gen.c15_bases(rng, 300)), ('corpus', props.corpus_cases())]
    total = 0
    first = None
    for name, items in sets:
        recs = ctx.run_set(name, items, vlib.obs_full)
        d = [r for r in recs if r.get('agree') == 'diff']
        total += len(d)
        if d and first is None:
            first = (name, d[0]['text'].replace('\n', ' ')[:300])
        if total and stop_at_first:
            break
    return total, first


def main():
    n = int(sys.argv[1]) if len(sys.argv) > 1 else 20
    seed = int(sys.argv[2]) if len(sys.argv) > 2 else 1
    rng = random.Random(seed)
    st = subprocess.run('git -C /repo status --porcelain', shell=True, capture_output=True, text=True).stdout.strip()
    if st:
        print('/repo is not clean'); return 2
    vlib.build_harness(('s1',)); vlib.coq_make(['Model/Derive.vo']); vlib.build_driver()
    ctx = props.Ctx('MUT', 'quick', seed)
    base, _ = sweep(ctx, random.Random(seed))
    print('baseline disagreements:', base, flush=True)
    res = []
    done = 0
    for (f, a, b, rep, line) in candidates(rng):
        if done >= n:
            break
        path = os.path.join(vlib.REPO, f)
        text = open(path).read()
        try:
            open(path, 'w').write(text[:a] + rep + text[b:])
            try:
                vlib.build_harness(('s1',))
            except vlib.BuildError:
                continue          # does not compile
            done += 1
            ctx = props.Ctx('MUT', 'quick', seed)
            t = time.time()
            nd, first = sweep(ctx, random.Random(seed), stop_at_first=True)
            rec = {'file': f, 'line': text.count('\n', 0, a) + 1, 'op': '%s -> %s' % (text[a:b], rep), 'src': line, 'disagreements': nd, 'first': first}
            res.append(rec)
            print(('SURVIVED ' if nd == 0 else 'noticed  ') + json.dumps(rec)[:420], '%.0fs' % (time.time() - t), flush=True)
        finally:
            open(path, 'w').write(text)
    subprocess.run('git -C /repo checkout -- .', shell=True)
    vlib.build_harness(('s1',))
    json.dump(res, open(os.path.join(vlib.BUILD, 'mutscreen_%d.json' % seed), 'w'), indent=1)
    surv = [r for r in res if r['disagreements'] == 0]
    print('%d mutants, %d survived' % (len(res), len(surv)))


if __name__ == '__main__':
    sys.exit(main())
