"""Direct oracles: each judges the IMPLEMENTATION's behaviour only (its outcome on an input, or on two related
inputs), against the property text, independently of the Coq model.  A hit is therefore a real violation.
The rules written here are a second, hand-written reading of README.md / the property statements."""
import re, itertools, copy
import vlib, gen

# ---------------------------------------------------------------------------------------------------
# small helpers on the canonical forms
# ---------------------------------------------------------------------------------------------------
KINDS = ['owned_into', 'ref_into', 'from_owned', 'from_ref', 'owned_into_existing', 'ref_into_existing']


def sx(s):
    return vlib.parse_sexp(s) if s else None


def sval(x):
    """value of an s-expression atom or string"""
    return x[1] if isinstance(x, tuple) else x


def norm_ty(s):
    """counterpart / self type text without spaces, turbofish, leading & and the 'o2o lifetime"""
    s = s.replace(' ', '').replace("'o2o", '')
    s = s.replace('::<', '<')
    return s


def impl_key(imp):
    """(kind name, fallible, counterpart text) of one (impl ...) node of a SEM / SHAPE summary"""
    tr = sval(imp[1])
    self_ty = sval(imp[2])
    m = re.match(r'^(::core::convert::|o2o::traits::)(\w+)<(.*)>$', tr, flags=re.S)
    if not m:
        return None
    name, arg = m.group(2), m.group(3)
    arg_ref = arg.startswith('&')
    self_ref = self_ty.startswith('&')
    arg = norm_ty(arg.lstrip('&'))
    fallible = name.startswith('Try')
    base = name[3:] if fallible else name
    if base == 'From':
        kind = 'from_ref' if arg_ref else 'from_owned'
    elif base == 'Into':
        kind = 'ref_into' if self_ref else 'owned_into'
    elif base == 'IntoExisting':
        kind = 'ref_into_existing' if self_ref else 'owned_into_existing'
    else:
        return None
    if base != 'From' and arg_ref:
        return None
    if base == 'From' and self_ref:
        return None
    return (kind, fallible, arg, norm_ty(self_ty.lstrip('&')))


def sem_impls(sem):
    """list of (key, impl node) for a (sem ...) summary"""
    t = sx(sem)
    if not t or t[0] != 'sem':
        return None
    out = []
    for imp in t[1:]:
        if isinstance(imp, list) and imp and imp[0] == 'impl':
            out.append((impl_key(imp), imp))
        else:
            out.append((None, imp))
    return out


def node(imp, name):
    for x in imp[1:]:
        if isinstance(x, list) and x and x[0] == name:
            return x
    return None


def fn_block(imp):
    f = node(imp, 'fn')
    if f is None:
        return None
    for x in f:
        if isinstance(x, list) and x and x[0] == 'block':
            return x
    return None


def error_type(imp):
    t = node(imp, 'type')
    return sval(t[2]) if t is not None else None


# ---------------------------------------------------------------------------------------------------
# C04: headers
# ---------------------------------------------------------------------------------------------------
def cp_text(a):
    """counterpart of a generated trait Attr, as it will be printed in the header"""
    return norm_ty(a.cp)


def expected_headers(item):
    """multiset (sorted list) of (kind, fallible, counterpart, self ident, error type) documented for the trait
    instructions of a generated item (README shortcut table + 12-kind listing)"""
    exp = []
    for a in item.attrs:
        if isinstance(a, gen.Attr) and a.name in gen.TRAIT_NAMES and hasattr(a, 'cp'):
            for (basic, fall) in gen.kinds_of(a.name):
                exp.append((basic, fall, cp_text(a), item.name, norm_ty(a.err) if fall else None))
    return sorted(exp, key=repr)


HDR_RE = re.compile(r'impl (?:< .*? > )??((?:: : core : : convert : : )|(?:o2o : : traits : : ))(\w+) < (.*) > for (.*?)(?: where .*)?$')


def actual_headers(out):
    """(kind, fallible, counterpart, self ident, error type) of every impl of an (ok ..) outcome, read off the tokens"""
    res = []
    for imp in vlib.split_impls(vlib.ok_tokens(out)):
        hdr = vlib.header_of(imp)
        i = hdr.find('impl')
        m = HDR_RE.match(hdr[i:]) if i >= 0 else None
        if not m:
            res.append(('?', hdr[:200]))
            continue
        name, arg, self_ty = m.group(2), m.group(3), m.group(4)
        arg_ref, self_ref = arg.startswith('&'), self_ty.startswith('&')
        arg = norm_ty(re.sub(r"^& (?:' o2o )?", '', arg))
        self_ty = norm_ty(re.sub(r"^& (?:' o2o )?", '', self_ty))
        fallible = name.startswith('Try')
        base = name[3:] if fallible else name
        if base == 'From' and not self_ref:
            kind = 'from_ref' if arg_ref else 'from_owned'
        elif base == 'Into' and not arg_ref:
            kind = 'ref_into' if self_ref else 'owned_into'
        elif base == 'IntoExisting' and not arg_ref:
            kind = 'ref_into_existing' if self_ref else 'owned_into_existing'
        else:
            res.append(('?', hdr[:200]))
            continue
        body = imp[-1][2:]
        err = None
        if len(body) > 3 and body[0] == ['I', 'type'] and body[1] == ['I', 'Error']:
            j = 3
            ets = []
            while j < len(body) and not (body[j][0] == 'P' and body[j][1] == ';'):
                ets.append(body[j])
                j += 1
            err = norm_ty(vlib.toks_text(ets))
        res.append((kind, fallible, arg, re.sub(r'<.*>$', '', self_ty, flags=re.S), err))
    return sorted(res, key=repr)


# ---------------------------------------------------------------------------------------------------
# C05: which member instruction wins (rank), written from the property statement
# ---------------------------------------------------------------------------------------------------
def into_of(kind):
    return {'owned_into_existing': 'owned_into', 'ref_into_existing': 'ref_into'}.get(kind)


def levels(kind, fallible):
    """ordered (kind, fallible) lookup levels for a conversion"""
    lv = [(kind, fallible)]
    if fallible:
        lv.append((kind, False))
    if into_of(kind):
        lv.append((into_of(kind), fallible))
        if fallible:
            lv.append((into_of(kind), False))
    return lv


def instr_kinds(name):
    if name == 'as_type':
        return {(k, False) for k in KINDS}          # a cast in both directions, into_existing included (its own table row)
    return set(gen.kinds_of(name))


GHOST_KINDS = {
    'ghost': set(KINDS), 'ghost_owned': {'owned_into', 'from_owned', 'owned_into_existing'},
    'ghost_ref': {'ref_into', 'from_ref', 'ref_into_existing'},
}


def winner(attrs, kind, fallible, cp):
    """index (into attrs) of the member instruction that takes effect for the conversion, or None.
    attrs: list of gen.Attr on one member (map-family and ghost-family; others ignored)"""
    # ghost first: dedicated beats default, then source order
    for ded_pass in (True, False):
        for i, a in enumerate(attrs):
            if a.name in GHOST_KINDS and kind in GHOST_KINDS[a.name]:
                if (ded_pass and a.ded is not None and norm_ty(a.ded) == cp) or (not ded_pass and a.ded is None):
                    return i
    for (k, f) in levels(kind, fallible):
        for ded_pass in (True, False):
            for i, a in enumerate(attrs):
                if (a.name in gen.MEMBER_MAP_NAMES or a.name == 'as_type') and (k, f) in instr_kinds(a.name):
                    if (ded_pass and a.ded is not None and norm_ty(a.ded) == cp) or (not ded_pass and a.ded is None):
                        return i
    return None


# ---------------------------------------------------------------------------------------------------
# C06: projection to one counterpart
# ---------------------------------------------------------------------------------------------------
def project(item, cp):
    """the input with every instruction concerning another counterpart removed"""
    it = item.clone()
    def keep(a):
        if isinstance(a, gen.Group):
            return True
        if a.name in gen.TRAIT_NAMES and hasattr(a, 'cp'):
            return norm_ty(a.cp) == cp
        if a.ded is not None:
            return norm_ty(a.ded) == cp
        return True
    for lst in gen.all_attr_lists(it):
        lst[:] = [a for a in lst if keep(a)]
    return it


def impls_for(out, cp):
    """token text of the impls of an (ok ...) outcome that convert to/from counterpart cp, in order"""
    res = []
    for imp in vlib.split_impls(vlib.ok_tokens(out)):
        hdr = vlib.header_of(imp)
        res.append((hdr, vlib.toks_text(imp)))
    return res


def header_counterpart(hdr_text):
    """counterpart named in an impl header text (tokens joined by spaces)"""
    m = re.search(r'(?:From|Into|IntoExisting|TryFrom|TryInto|TryIntoExisting) < (.*?) > for ', hdr_text)
    if not m:
        return None
    arg = m.group(1)
    arg = re.sub(r"^& (?:' o2o )?", '', arg)
    return norm_ty(arg)


# ---------------------------------------------------------------------------------------------------
# C20: identifiers
# ---------------------------------------------------------------------------------------------------
ALLOW_IDENTS = set('''impl for fn let mut match where type as ref return if else in move self Self
core convert From Into TryFrom TryInto result Result o2o traits IntoExisting TryIntoExisting
from into try_from try_into into_existing try_into_existing value other obj Error Ok Default default'''.split())


def input_idents(text):
    return set(re.findall(r"[^\W\d]\w*", text))


def foreign_idents(out, text):
    ids = vlib.idents(vlib.ok_tokens(out))
    inp = input_idents(text)
    bad = set()
    for i in ids:
        if i in ALLOW_IDENTS or i in inp:
            continue
        if re.fullmatch(r'f\d+', i):
            continue
        bad.add(i)
    return bad


def rooted_paths(toks, out=None):
    """every `::`-rooted path (leading `::`) in the token list, as tuples of the first three segments"""
    out = [] if out is None else out
    flat = toks
    i = 0
    n = len(flat)
    while i < n:
        t = flat[i]
        if t[0] == 'G':
            rooted_paths(t[2:], out)
        elif t[0] == 'P' and t[1] == ':' and i + 1 < n and flat[i + 1][0] == 'P' and flat[i + 1][1] == ':':
            prev = flat[i - 1] if i > 0 else None
            lead = prev is None or not (prev[0] in ('I', 'G') or (prev[0] == 'P' and prev[1] == '>'))
            if lead:
                segs = []
                j = i
                while j + 2 < n + 1 and j + 1 < n and flat[j][0] == 'P' and flat[j][1] == ':' and flat[j + 1][0] == 'P' and flat[j + 1][1] == ':' \
                        and j + 2 < n and flat[j + 2][0] == 'I':
                    segs.append(flat[j + 2][1])
                    j += 3
                out.append(tuple(segs[:3]))
                i = j
                continue
            i += 2
            continue
        i += 1
    return out


def header_context(hdr):
    """(kind, fallible, counterpart) from an impl header text (tokens joined by spaces), or None"""
    i = hdr.find('impl')
    m = HDR_RE.match(hdr[i:]) if i >= 0 else None
    if not m:
        return None
    name, arg, self_ty = m.group(2), m.group(3), m.group(4)
    arg_ref, self_ref = arg.startswith('&'), self_ty.startswith('&')
    arg = norm_ty(re.sub(r"^& (?:' o2o )?", '', arg))
    self_ty = norm_ty(re.sub(r"^& (?:' o2o )?", '', self_ty))
    fallible = name.startswith('Try')
    base = name[3:] if fallible else name
    if base == 'From':
        return ('from_ref' if arg_ref else 'from_owned', fallible, arg)
    if base == 'Into':
        return ('ref_into' if self_ref else 'owned_into', fallible, arg)
    if base == 'IntoExisting':
        return ('ref_into_existing' if self_ref else 'owned_into_existing', fallible, arg)
    return None


# ---------------------------------------------------------------------------------------------------
# C01 (and the struct part of C07): the designated mapping of a struct conversion, from the README rules
# ---------------------------------------------------------------------------------------------------
def sem_text(e):
    """canonical flat text of a SEM expression node"""
    if not isinstance(e, list):
        return sval(e)
    h = e[0]
    if h == 'raw':
        return sval(e[1])
    if h == 'struct':
        parts = []
        rest = ''
        for x in e[2:]:
            if x[0] == 'f':
                parts.append('%s:%s' % (sval(x[1]), sem_text(x[2])))
            elif x[0] == 'rest':
                rest = '..' + sem_text(x[1])
        return '%s{%s}' % (sval(e[1]), ','.join(parts + ([rest] if rest else [])))
    if h == 'call':
        return '%s(%s)' % (sval(e[1]), ','.join(sem_text(x) for x in e[2:]))
    if h == 'tuple':
        return '(%s)' % ','.join(sem_text(x) for x in e[1:])
    if h == 'paren':
        return '(%s)' % sem_text(e[1])
    if h == 'try':
        return sem_text(e[1]) + '?'
    if h == 'assign':
        return '%s=%s' % (sval(e[1]), sem_text(e[2]))
    if h == 'match':
        return 'match %s{%s}' % (sval(e[1]), ','.join('%s=>%s' % (sval(a[1]), sem_text(a[-1])) for a in e[2:]))
    if h == 'block':
        return '{%s}' % ';'.join(sem_text(x[1]) if x[0] in ('stmt', 'tail') else repr(x) for x in e[1:])
    return repr(e)


def nsp(s):
    """the text without white space - except inside string / char literals, where blanks are part of the value"""
    out = []
    for i, part in enumerate(re.split(r'("(?:[^"\\\\]|\\\\.)*")', s)):
        out.append(part if i % 2 else re.sub(r'\s+', '', part))
    return ''.join(out)


def subst_text(expr, tilde, at):
    """textual @ / ~ substitution on expressions that contain the characters only as markers"""
    return nsp(expr.replace('~', tilde).replace('@', at))


def shape_of_counterpart(cp, hint, own_shape):
    if cp.startswith('('):
        return 'tuple'
    if hint == 'as {}':
        return 'named'
    if hint == 'as ()':
        return 'tuple'
    if hint == 'as Unit':
        return 'unit'
    return 'named' if own_shape == 'named' else 'tuple'


def member_winner(attrs, kind, fallible, cp):
    """like winner(), with as_type counted as an infallible instruction of every kind"""
    for ded_pass in (True, False):
        for i, a in enumerate(attrs):
            if a.name in GHOST_KINDS and kind in GHOST_KINDS[a.name]:
                if (ded_pass and a.ded is not None and norm_ty(a.ded) == cp) or (not ded_pass and a.ded is None):
                    return i
    for (k, f) in levels(kind, fallible):
        for ded_pass in (True, False):
            for i, a in enumerate(attrs):
                ks = instr_kinds(a.name) if a.name in gen.MEMBER_MAP_NAMES else ({(x, False) for x in KINDS} if a.name == 'as_type' else set())
                if (k, f) in ks:
                    if (ded_pass and a.ded is not None and norm_ty(a.ded) == cp) or (not ded_pass and a.ded is None):
                        return i
    return None


def ghosts_entries(item, kind, cp):
    """entries (name, expr) of the struct-level #[ghosts] instruction applicable to the conversion"""
    owned = kind in ('owned_into', 'from_owned', 'owned_into_existing')
    cands = [a for a in item.attrs if isinstance(a, gen.Attr) and a.name in ('ghosts', 'ghosts_owned', 'ghosts_ref')
             and (a.name == 'ghosts' or (a.name == 'ghosts_owned') == owned)]
    pick = None
    for a in cands:
        if a.ded is not None and norm_ty(a.ded) == cp:
            pick = a
            break
    if pick is None:
        for a in cands:
            if a.ded is None:
                pick = a
                break
    if pick is None:
        return []
    out = []
    for ent in re.findall(r'([\w.@]+)\s*:\s*\{([^{}]*)\}', pick.args):
        out.append((ent[0], ent[1].strip()))
    return out


class OutOfScope(Exception):
    pass


def ghosts_pick(lst, kind, cp):
    """the #[ghosts] instruction in effect among (name, dedicated-to, ...) tuples in declaration order: instructions of the
    conversion's ownership flavour; the first one dedicated to the counterpart, otherwise the first default one"""
    owned = kind in ('owned_into', 'from_owned', 'owned_into_existing')
    cands = [g for g in lst if g[0] == 'ghosts' or (g[0] == 'ghosts_owned') == owned]
    for g in cands:
        if g[1] is not None and norm_ty(g[1]) == cp:
            return g
    for g in cands:
        if g[1] is None:
            return g
    return None


def expected_struct_meaning(item, kind, fallible, cp, hint):
    """the designated mapping (README rules).  raises OutOfScope for cells the statement does not settle"""
    own_shape = item.shape
    dshape = shape_of_counterpart(cp, hint, own_shape)
    fields = item.members
    src = 'value' if kind.startswith('from') else 'self'
    is_from = kind.startswith('from')
    def own(j, f):
        return f.name if f.name is not None else str(j)
    upd = None
    for a in item.attrs:
        if isinstance(a, gen.Attr) and a.name in gen.TRAIT_NAMES and getattr(a, 'cp', None) is not None and norm_ty(a.cp) == cp \
                and (kind, fallible) in set(gen.kinds_of(a.name)):
            m = re.search(r'\.\.(.*)$', a.params or '')
            if m:
                upd = m.group(1).strip()
                if upd.startswith('{') and upd.endswith('}'):
                    upd = upd[1:-1]
    if is_from:
        if own_shape == 'unit':
            return ('unit',)
        named_self = own_shape == 'named'
        src_named = dshape == 'named'
        vals = []
        skipped_before = False
        for j, f in enumerate(fields):
            w = member_winner(f.attrs, kind, fallible, cp)
            a = f.attrs[w] if w is not None else None
            if a is not None and a.name in GHOST_KINDS:
                if a.default is None:
                    skipped_before = True
                    continue          # absent: supplied by ..update (validation demands it)
                vals.append((own(j, f), subst_text(a.default, '<no-tilde>', src)))
                skipped_before = True
                continue
            member = getattr(a, 'member', None) if a is not None else None
            expr = getattr(a, 'expr', None) if a is not None else None
            cast = getattr(a, 'cast', None) if a is not None else None
            if member is not None:
                srcf = str(member)
            elif src_named:
                if f.name is None:
                    if expr is not None and '~' not in expr:
                        srcf = None
                    else:
                        raise OutOfScope('tuple field read from a named counterpart without a member name')
                else:
                    srcf = f.name
            else:
                if dshape == 'unit':
                    if expr is not None and '~' not in expr:
                        srcf = None
                    else:
                        raise OutOfScope('field read from a unit counterpart')
                else:
                    if skipped_before:
                        raise OutOfScope('positional read after a skipped field (the statement\'s "same position" is ambiguous)')
                    srcf = str(j)
            path = '%s.%s' % (src, srcf)
            if expr is not None:
                v = subst_text(expr, path, src)
            elif cast is not None:
                v = nsp('%s as %s' % (path, f.ty))
            else:
                v = path
            vals.append((own(j, f), v))
        if named_self:
            return ('named', dict(vals), nsp(subst_text(upd, '<no-tilde>', src)) if upd else None)
        return ('tuple', [v for _, v in vals])
    # Into / IntoExisting
    live = []
    for j, f in enumerate(fields):
        w = member_winner(f.attrs, kind, fallible, cp)
        a = f.attrs[w] if w is not None else None
        if a is not None and a.name in GHOST_KINDS:
            continue
        member = getattr(a, 'member', None) if a is not None else None
        expr = getattr(a, 'expr', None) if a is not None else None
        cast = getattr(a, 'cast', None) if a is not None else None
        path = '%s.%s' % (src, own(j, f))
        if expr is not None:
            v = subst_text(expr, path, src)
        elif cast is not None:
            v = nsp('%s as %s' % (path, cast))
        else:
            v = path
        live.append((j, f, member, v))
    gents = ghosts_entries(item, kind, cp)
    existing = kind.endswith('existing')
    if dshape == 'unit':
        return ('assign', {}) if existing else ('unit',)
    if dshape == 'named':
        d = {}
        for j, f, member, v in live:
            if member is not None:
                place = str(member)
            elif f.name is not None:
                place = f.name
            else:
                raise OutOfScope('tuple field written to a named counterpart without a member name')
            d[place] = v
        for nm, e in gents:
            d[nm] = subst_text(e, '<no-tilde>', src)
        if existing:
            return ('assign', {'other.' + k: v for k, v in d.items()})
        return ('named', d, nsp(subst_text(upd, '<no-tilde>', src)) if upd else None)
    # tuple-shaped destination: position among the live fields, unless an index is given
    if any(member is not None and not str(member).isdigit() for _, _, member, _ in live):
        # a member *name* under a tuple-shaped destination (a default instruction written for a named counterpart also reaches a
        # tuple-shaped one): the configuration contradicts itself, the statement does not say which of name / position wins
        raise OutOfScope('named member under a tuple-shaped destination')
    if any(isinstance(member, int) or (member is not None and str(member).isdigit()) for _, _, member, _ in live):
        # "the renamed member when one is given": only settled when the given indices are a permutation of the positions
        idxs = [int(member) if member is not None and str(member).isdigit() else None for _, _, member, _ in live]
        if gents or None in idxs or sorted(idxs) != list(range(len(live))):
            raise OutOfScope('index rename under a tuple-shaped destination (indices are not a permutation of the positions)')
        if existing:
            return ('assign', {'other.%d' % i: v for i, (_, _, _, v) in zip(idxs, live)})
        return ('tuple', [v for _, v in sorted(zip(idxs, [v for _, _, _, v in live]))])
    vals = [v for _, _, _, v in live] + [subst_text(e, '<no-tilde>', src) for _, e in gents]
    if existing:
        d = {'other.%d' % i: v for i, (_, _, _, v) in enumerate(live)}
        for nm, e in gents:
            d['other.' + nm] = subst_text(e, '<no-tilde>', src)
        return ('assign', d)
    return ('tuple', vals)


def existing_assignments(imp, fallible):
    """[(place, value)] of an into_existing body, in statement order (None when the body has another form)"""
    blk = fn_block(imp)
    if blk is None:
        return None
    out = []
    for st in blk[1:]:
        if st[0] == 'let':
            continue
        if st[0] == 'stmt' and isinstance(st[1], list) and st[1][0] == 'assign':
            out.append((sval(st[1][1]), sem_text(st[1][2])))
        elif st[0] == 'tail' and sem_text(st[1]) == 'Ok(())' and fallible:
            continue
        else:
            return None
    return out


def actual_struct_meaning(imp, fallible, existing, with_lets=False):
    """what an impl's body does, read off its SEM summary; None when it is not of a recognised form"""
    blk = fn_block(imp)
    if blk is None:
        return None
    stmts = blk[1:]
    if with_lets:
        lets = tuple((sval(x[1]), sem_text(x[2]) if len(x) > 2 else '') for x in stmts if x[0] == 'let')
        inner = actual_struct_meaning(['impl', imp[1], imp[2], ['fn', ['block'] + [x for x in stmts if x[0] != 'let']]], fallible, existing)
        return None if inner is None else (('lets', lets, inner) if lets else inner)
    if existing:
        d = {}
        for st in stmts:
            if st[0] == 'stmt' and isinstance(st[1], list) and st[1][0] == 'assign':
                d[sval(st[1][1])] = sem_text(st[1][2])
            elif st[0] == 'tail' and sem_text(st[1]) == 'Ok(())' and fallible:
                continue
            else:
                return None
        return ('assign', d)
    if len(stmts) != 1 or stmts[0][0] != 'tail':
        return None
    e = stmts[0][1]
    if fallible:
        if not (isinstance(e, list) and e[0] == 'call' and sval(e[1]) == 'Ok' and len(e) == 3):
            return None
        e = e[2]
    if e[0] == 'struct':
        d = {}
        rest = None
        for x in e[2:]:
            if x[0] == 'f':
                if sval(x[1]) in d:
                    return ('duplicate-field', sval(x[1]))
                d[sval(x[1])] = sem_text(x[2])
            elif x[0] == 'rest':
                rest = sem_text(x[1])
        return ('named', d, rest)
    if e[0] == 'call':
        return ('tuple', [sem_text(x) for x in e[2:]])
    if e[0] == 'tuple':
        return ('tuple', [sem_text(x) for x in e[1:]])
    if e[0] == 'paren':
        return ('tuple', [sem_text(e[1])])
    if e[0] == 'raw':
        return ('unit',)
    return None


PARENT_CALL_RE = re.compile(r'^\(?&?\(?self\.(\w+)\)*\.(?:try_)?into_existing\((?:&mutobj|other)\)$')


def body_effects(imp, fallible):
    """order-aware reading of an Into-side body that flattens bare #[parent] fields: the assignments to the destination,
    cut into segments by the parent conversions (a parent may write any destination field, so its position among the
    assignments matters; the order inside a segment does not).  None when the body is not of that form."""
    blk = fn_block(imp)
    if blk is None:
        return None
    segs, cur, lets = [], {}, []
    for st in blk[1:]:
        if st[0] == 'let':
            if sval(st[1]).startswith('mutobj:') and len(st) > 2 and sem_text(st[2]) == 'Default::default()':
                continue
            lets.append((sval(st[1]), sem_text(st[2]) if len(st) > 2 else ''))
        elif st[0] == 'stmt' and isinstance(st[1], list) and st[1][0] == 'assign':
            place = sval(st[1][1])
            m = re.match(r'^(?:obj|other)\.(.+)$', place)
            if not m:
                return None
            cur[m.group(1)] = sem_text(st[1][2])
        elif st[0] == 'stmt' and isinstance(st[1], list):
            e = st[1]
            if e[0] == 'try' and fallible:
                e = e[1]
            m = PARENT_CALL_RE.match(sem_text(e)) if isinstance(e, list) else None
            if not m:
                return None
            segs.append(tuple(sorted(cur.items())))
            segs.append(('parent', m.group(1)))
            cur = {}
        elif st[0] == 'tail':
            if sem_text(st[1]) not in ('obj', 'Ok(obj)', 'Ok(())'):
                return None
        else:
            return None
    segs.append(tuple(sorted(cur.items())))
    return (tuple(lets), tuple(segs))


def parent_calls_without_propagation(imp):
    """names of the bare #[parent] fields whose fallible conversion (`.try_into_existing(..)`) is called as a statement without `?`:
    the error it returns would be dropped instead of being returned by the enclosing Try.. conversion"""
    blk = fn_block(imp)
    out = []
    for st in (blk[1:] if blk else []):
        if st[0] == 'stmt' and isinstance(st[1], list) and st[1][0] != 'try':
            t = sem_text(st[1])
            m = PARENT_CALL_RE.match(t)
            if m and '.try_into_existing(' in t:
                out.append(m.group(1))
    return out


# ---------------------------------------------------------------------------------------------------
# C02: the designated arms of an enum conversion (README rules)
# ---------------------------------------------------------------------------------------------------
def parse_pattern(p):
    """('unit'|'tuple'|'named', path, [bindings]) of a match-arm pattern text without spaces"""
    m = re.fullmatch(r'([\w:]+)\((.*)\)', p)
    if m:
        inner = m.group(2)
        return ('tuple', m.group(1), [x for x in inner.split(',') if x != ''])
    m = re.fullmatch(r'([\w:]+)\{(.*)\}', p)
    if m:
        return ('named', m.group(1), sorted(x for x in m.group(2).split(',') if x != ''))
    return ('unit', p, [])


def expected_enum_arms(item, kind, fallible, cp):
    """list of (pattern, meaning) per variant + whether a default arm is expected; OutOfScope when unsettled"""
    is_from = kind.startswith('from')
    arms = []
    any_ghost_variant = False
    for v in item.members:
        spec = v.spec
        own_shape = v.shape
        hint = spec['hints'].get(cp) if spec.get('hints') else spec['hint']      # dedicated to this counterpart, else the default one
        cshape = {'as {}': 'named', 'as ()': 'tuple', 'as Unit': 'unit'}.get(hint, own_shape)
        # variant-level instruction in effect
        w = member_winner(v.attrs, kind, fallible, cp)
        a = v.attrs[w] if w is not None else None
        if a is not None and a.name in GHOST_KINDS:
            any_ghost_variant = True
            if is_from:
                continue                      # the counterpart has no such variant
            if a.default is None:
                continue                      # no default: nothing to produce (falls to the default case)
            arms.append((('own', v.name), ('expr', nsp(a.default))))
            continue
        cname = str(a.member) if (a is not None and getattr(a, 'member', None) is not None) else v.name
        # payload
        fields = []
        for q, f in enumerate(v.fields):
            fw = member_winner(f.attrs, kind, fallible, cp)
            fa = f.attrs[fw] if fw is not None else None
            own = f.name if f.name is not None else str(q)
            own_bind = f.name if f.name is not None else 'f%d' % q
            ghost = fa is not None and fa.name in GHOST_KINDS
            member = getattr(fa, 'member', None) if (fa is not None and not ghost) else None
            expr = getattr(fa, 'expr', None) if (fa is not None and not ghost) else None
            fields.append(dict(own=own, own_bind=own_bind, ghost=ghost, default=getattr(fa, 'default', None) if ghost else None,
                               member=member, expr=expr, q=q, named=f.name is not None))
        if is_from:
            # pattern on the counterpart variant, expression builds the own variant
            binds = []
            vals = []
            for fd in fields:
                if fd['ghost']:
                    if fd['default'] is None:
                        raise OutOfScope('payload ghost without default under From')
                    vals.append((fd['own'], nsp(fd['default'])))
                    continue
                if cshape == 'named':
                    if fd['member'] is not None:
                        b = str(fd['member'])
                    elif fd['named']:
                        b = fd['own']
                    else:
                        raise OutOfScope('tuple payload read from a struct-form variant without a member name')
                elif cshape == 'tuple':
                    if fd['member'] is not None and str(fd['member']).isdigit():
                        b = 'f%s' % fd['member']
                    elif fd['member'] is not None:
                        raise OutOfScope('named member under a tuple-form variant')
                    else:
                        b = 'f%d' % fd['q']
                else:
                    raise OutOfScope('payload read from a unit-form variant')
                binds.append(b if cshape == 'named' else 'f%d' % fd['q'])
                vals.append((fd['own'], subst_text(fd['expr'], b, 'value') if fd['expr'] is not None else b))
            if any(fd['ghost'] for fd in fields) and cshape == 'tuple' and any(not fd['ghost'] and fd['q'] > min(x['q'] for x in fields if x['ghost']) for fd in fields):
                raise OutOfScope('positional binding after a skipped payload field')
            vg = ghosts_pick(spec.get('vghosts') or [], kind, cp)
            if vg is not None:
                binds.append(vg[2] if cshape == 'named' else 'f%s' % vg[2])     # the counterpart's extra field is bound and dropped
            pat = (cshape if fields else ('unit' if cshape == 'unit' or own_shape == 'unit' else cshape), cname, sorted(binds) if cshape == 'named' else binds)
            if own_shape == 'named':
                mean = ('named', dict(vals))
            elif own_shape == 'tuple':
                mean = ('tuple', [x for _, x in vals])
            else:
                mean = ('unit',)
            arms.append((('cp', pat), ('build', 'own', v.name, mean)))
        else:
            binds = [fd['own_bind'] for fd in fields]
            pat = (own_shape, v.name, sorted(binds) if own_shape == 'named' else binds)
            vals = []
            for fd in fields:
                if fd['ghost']:
                    continue
                if cshape == 'tuple' and fd['member'] is not None:
                    raise OutOfScope('index rename under a tuple-form destination variant (finding F-01a)')
                val = subst_text(fd['expr'], fd['own_bind'], 'self') if fd['expr'] is not None else fd['own_bind']
                if cshape == 'named':
                    if fd['member'] is not None:
                        place = str(fd['member'])
                    elif fd['named']:
                        place = fd['own']
                    else:
                        raise OutOfScope('tuple payload written to a struct-form variant without a member name')
                    vals.append((place, val))
                else:
                    vals.append((None, val))
            vg = ghosts_pick(spec.get('vghosts') or [], kind, cp)
            if vg is not None:
                vals.append((vg[2] if cshape == 'named' else None, nsp(vg[3])))     # ... and takes its declared default
            if cshape == 'named':
                mean = ('named', dict(vals))
            elif cshape == 'tuple':
                mean = ('tuple', [x for _, x in vals])
            else:
                mean = ('unit',)
            arms.append((('own', pat), ('build', 'cp', cname, mean)))
    if is_from:
        eg = ghosts_pick(item.meta.get('eghosts') or [], kind, cp)
        for (vname, _pt, dflt) in (eg[2] if eg is not None else []):
            arms.append((('cp', vname), ('expr', nsp(dflt))))               # ghost variants of the counterpart: their declared expression
    return arms, any_ghost_variant


def actual_enum_arms(imp, fallible):
    blk = fn_block(imp)
    if blk is None:
        return None
    stmts = [x for x in blk[1:] if x[0] != 'let']
    if len(stmts) != 1 or stmts[0][0] != 'tail':
        return None
    e = stmts[0][1]
    if fallible:
        if not (isinstance(e, list) and e[0] == 'call' and sval(e[1]) == 'Ok' and len(e) == 3):
            return None
        e = e[2]
    if not (isinstance(e, list) and e[0] == 'match'):
        return None
    arms = []
    for a in e[2:]:
        pat = sval(a[1])
        body = a[-1]
        if isinstance(body, list) and body[0] == 'struct':
            m = ('named', {sval(x[1]): sem_text(x[2]) for x in body[2:] if x[0] == 'f'})
            arms.append((pat, ('build', sval(body[1]), m)))
        elif isinstance(body, list) and body[0] == 'call' and '::' in sval(body[1]):
            arms.append((pat, ('build', sval(body[1]), ('tuple', [sem_text(x) for x in body[2:]]))))
        else:
            arms.append((pat, ('expr', sem_text(body))))
    return sval(e[1]), arms
