"""Direct oracles: each judges the IMPLEMENTATION's behaviour only (its outcome on an input, or on two related
inputs), against the property text, independently of the Coq model.  A hit is therefore a real violation.
The rules written here are a second, hand-written reading of README.md / the property statements."""
import re, itertools, copy
import vlib, gen

# ---------------------------------------------------------------------------------------------------
# small helpers on the canonical forms
# ---------------------------------------------------------------------------------------------------
KINDS = ['owned_into', 'ref_into', 'from_owned', 'from_ref', 'owned_into_existing', 'ref_into_existing']


def sx(s):
    return vlib.parse_sexp(s) if s else None


def sval(x):
    """value of an s-expression atom or string"""
    return x[1] if isinstance(x, tuple) else x


def norm_ty(s):
    """counterpart / self type text without spaces, turbofish, leading & and the 'o2o lifetime"""
    s = s.replace(' ', '').replace("'o2o", '')
    s = s.replace('::<', '<')
    return s


def impl_key(imp):
    """(kind name, fallible, counterpart text) of one (impl ...) node of a SEM / SHAPE summary"""
    tr = sval(imp[1])
    self_ty = sval(imp[2])
    m = re.match(r'^(::core::convert::|o2o::traits::)(\w+)<(.*)>$', tr, flags=re.S)
    if not m:
        return None
    name, arg = m.group(2), m.group(3)
    arg_ref = arg.startswith('&')
    self_ref = self_ty.startswith('&')
    arg = norm_ty(arg.lstrip('&'))
    fallible = name.startswith('Try')
    base = name[3:] if fallible else name
    if base == 'From':
        kind = 'from_ref' if arg_ref else 'from_owned'
    elif base == 'Into':
        kind = 'ref_into' if self_ref else 'owned_into'
    elif base == 'IntoExisting':
        kind = 'ref_into_existing' if self_ref else 'owned_into_existing'
    else:
        return None
    if base != 'From' and arg_ref:
        return None
    if base == 'From' and self_ref:
        return None
    return (kind, fallible, arg, norm_ty(self_ty.lstrip('&')))


def sem_impls(sem):
    """list of (key, impl node) for a (sem ...) summary"""
    t = sx(sem)
    if not t or t[0] != 'sem':
        return None
    out = []
    for imp in t[1:]:
        if isinstance(imp, list) and imp and imp[0] == 'impl':
            out.append((impl_key(imp), imp))
        else:
            out.append((None, imp))
    return out


def node(imp, name):
    for x in imp[3:]:
        if isinstance(x, list) and x and x[0] == name:
            return x
    return None


def fn_block(imp):
    f = node(imp, 'fn')
    if f is None:
        return None
    for x in f:
        if isinstance(x, list) and x and x[0] == 'block':
            return x
    return None


def error_type(imp):
    t = node(imp, 'type')
    return sval(t[2]) if t is not None else None


# ---------------------------------------------------------------------------------------------------
# C04: headers
# ---------------------------------------------------------------------------------------------------
def cp_text(a):
    """counterpart of a generated trait Attr, as it will be printed in the header"""
    return norm_ty(a.cp)


def expected_headers(item):
    """multiset (sorted list) of (kind, fallible, counterpart, self ident, error type) documented for the trait
    instructions of a generated item (README shortcut table + 12-kind listing)"""
    exp = []
    for a in item.attrs:
        if isinstance(a, gen.Attr) and a.name in gen.TRAIT_NAMES and hasattr(a, 'cp'):
            for (basic, fall) in gen.kinds_of(a.name):
                exp.append((basic, fall, cp_text(a), item.name, norm_ty(a.err) if fall else None))
    return sorted(exp, key=repr)


HDR_RE = re.compile(r'impl (?:< .*? > )??((?:: : core : : convert : : )|(?:o2o : : traits : : ))(\w+) < (.*) > for (.*?)(?: where .*)?$')


def actual_headers(out):
    """(kind, fallible, counterpart, self ident, error type) of every impl of an (ok ..) outcome, read off the tokens"""
    res = []
    for imp in vlib.split_impls(vlib.ok_tokens(out)):
        hdr = vlib.header_of(imp)
        i = hdr.find('impl')
        m = HDR_RE.match(hdr[i:]) if i >= 0 else None
        if not m:
            res.append(('?', hdr[:200]))
            continue
        name, arg, self_ty = m.group(2), m.group(3), m.group(4)
        arg_ref, self_ref = arg.startswith('&'), self_ty.startswith('&')
        arg = norm_ty(re.sub(r"^& (?:' o2o )?", '', arg))
        self_ty = norm_ty(re.sub(r"^& (?:' o2o )?", '', self_ty))
        fallible = name.startswith('Try')
        base = name[3:] if fallible else name
        if base == 'From' and not self_ref:
            kind = 'from_ref' if arg_ref else 'from_owned'
        elif base == 'Into' and not arg_ref:
            kind = 'ref_into' if self_ref else 'owned_into'
        elif base == 'IntoExisting' and not arg_ref:
            kind = 'ref_into_existing' if self_ref else 'owned_into_existing'
        else:
            res.append(('?', hdr[:200]))
            continue
        body = imp[-1][2:]
        err = None
        if len(body) > 3 and body[0] == ['I', 'type'] and body[1] == ['I', 'Error']:
            j = 3
            ets = []
            while j < len(body) and not (body[j][0] == 'P' and body[j][1] == ';'):
                ets.append(body[j])
                j += 1
            err = norm_ty(vlib.toks_text(ets))
        res.append((kind, fallible, arg, re.sub(r'<.*>$', '', self_ty, flags=re.S), err))
    return sorted(res, key=repr)


# ---------------------------------------------------------------------------------------------------
# C05: which member instruction wins (rank), written from the property statement
# ---------------------------------------------------------------------------------------------------
def into_of(kind):
    return {'owned_into_existing': 'owned_into', 'ref_into_existing': 'ref_into'}.get(kind)


def levels(kind, fallible):
    """ordered (kind, fallible) lookup levels for a conversion"""
    lv = [(kind, fallible)]
    if fallible:
        lv.append((kind, False))
    if into_of(kind):
        lv.append((into_of(kind), fallible))
        if fallible:
            lv.append((into_of(kind), False))
    return lv


def instr_kinds(name):
    return set(gen.kinds_of(name))


GHOST_KINDS = {
    'ghost': set(KINDS), 'ghost_owned': {'owned_into', 'from_owned', 'owned_into_existing'},
    'ghost_ref': {'ref_into', 'from_ref', 'ref_into_existing'},
}


def winner(attrs, kind, fallible, cp):
    """index (into attrs) of the member instruction that takes effect for the conversion, or None.
    attrs: list of gen.Attr on one member (map-family and ghost-family; others ignored)"""
    # ghost first: dedicated beats default, then source order
    for ded_pass in (True, False):
        for i, a in enumerate(attrs):
            if a.name in GHOST_KINDS and kind in GHOST_KINDS[a.name]:
                if (ded_pass and a.ded is not None and norm_ty(a.ded) == cp) or (not ded_pass and a.ded is None):
                    return i
    for (k, f) in levels(kind, fallible):
        for ded_pass in (True, False):
            for i, a in enumerate(attrs):
                if a.name in gen.MEMBER_MAP_NAMES and (k, f) in instr_kinds(a.name):
                    if (ded_pass and a.ded is not None and norm_ty(a.ded) == cp) or (not ded_pass and a.ded is None):
                        return i
    return None


# ---------------------------------------------------------------------------------------------------
# C06: projection to one counterpart
# ---------------------------------------------------------------------------------------------------
def project(item, cp):
    """the input with every instruction concerning another counterpart removed"""
    it = item.clone()
    def keep(a):
        if isinstance(a, gen.Group):
            return True
        if a.name in gen.TRAIT_NAMES and hasattr(a, 'cp'):
            return norm_ty(a.cp) == cp
        if a.ded is not None:
            return norm_ty(a.ded) == cp
        return True
    for lst in gen.all_attr_lists(it):
        lst[:] = [a for a in lst if keep(a)]
    return it


def impls_for(out, cp):
    """token text of the impls of an (ok ...) outcome that convert to/from counterpart cp, in order"""
    res = []
    for imp in vlib.split_impls(vlib.ok_tokens(out)):
        hdr = vlib.header_of(imp)
        res.append((hdr, vlib.toks_text(imp)))
    return res


def header_counterpart(hdr_text):
    """counterpart named in an impl header text (tokens joined by spaces)"""
    m = re.search(r'(?:From|Into|IntoExisting|TryFrom|TryInto|TryIntoExisting) < (.*?) > for ', hdr_text)
    if not m:
        return None
    arg = m.group(1)
    arg = re.sub(r"^& (?:' o2o )?", '', arg)
    return norm_ty(arg)


# ---------------------------------------------------------------------------------------------------
# C20: identifiers
# ---------------------------------------------------------------------------------------------------
ALLOW_IDENTS = set('''impl for fn let mut match where type as ref return if else in move self Self
core convert From Into TryFrom TryInto result Result o2o traits IntoExisting TryIntoExisting
from into try_from try_into into_existing try_into_existing value other obj Error Ok Default default'''.split())


def input_idents(text):
    return set(re.findall(r"[A-Za-z_][A-Za-z0-9_]*", text))


def foreign_idents(out, text):
    ids = vlib.idents(vlib.ok_tokens(out))
    inp = input_idents(text)
    bad = set()
    for i in ids:
        if i in ALLOW_IDENTS or i in inp:
            continue
        if re.fullmatch(r'f\d+', i):
            continue
        bad.add(i)
    return bad


def rooted_paths(toks, out=None):
    """every `::`-rooted path (leading `::`) in the token list, as tuples of the first three segments"""
    out = [] if out is None else out
    flat = toks
    i = 0
    n = len(flat)
    while i < n:
        t = flat[i]
        if t[0] == 'G':
            rooted_paths(t[2:], out)
        elif t[0] == 'P' and t[1] == ':' and i + 1 < n and flat[i + 1][0] == 'P' and flat[i + 1][1] == ':':
            prev = flat[i - 1] if i > 0 else None
            lead = prev is None or not (prev[0] in ('I', 'G') or (prev[0] == 'P' and prev[1] == '>'))
            if lead:
                segs = []
                j = i
                while j + 2 < n + 1 and j + 1 < n and flat[j][0] == 'P' and flat[j][1] == ':' and flat[j + 1][0] == 'P' and flat[j + 1][1] == ':' \
                        and j + 2 < n and flat[j + 2][0] == 'I':
                    segs.append(flat[j + 2][1])
                    j += 3
                out.append(tuple(segs[:3]))
                i = j
                continue
            i += 2
            continue
        i += 1
    return out


def header_context(hdr):
    """(kind, fallible, counterpart) from an impl header text (tokens joined by spaces), or None"""
    i = hdr.find('impl')
    m = HDR_RE.match(hdr[i:]) if i >= 0 else None
    if not m:
        return None
    name, arg, self_ty = m.group(2), m.group(3), m.group(4)
    arg_ref, self_ref = arg.startswith('&'), self_ty.startswith('&')
    arg = norm_ty(re.sub(r"^& (?:' o2o )?", '', arg))
    self_ty = norm_ty(re.sub(r"^& (?:' o2o )?", '', self_ty))
    fallible = name.startswith('Try')
    base = name[3:] if fallible else name
    if base == 'From':
        return ('from_ref' if arg_ref else 'from_owned', fallible, arg)
    if base == 'Into':
        return ('ref_into' if self_ref else 'owned_into', fallible, arg)
    if base == 'IntoExisting':
        return ('ref_into_existing' if self_ref else 'owned_into_existing', fallible, arg)
    return None
