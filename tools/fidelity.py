#!/usr/bin/env python3
"""token fidelity of the model on all generic input sets (diagnostic tool, not a registered check)"""
import sys, os, random, collections
sys.path.insert(0, os.path.dirname(os.path.abspath(__file__)))
import vlib, gen, props
n = int(sys.argv[1]) if len(sys.argv) > 1 else 4000
rng = random.Random(int(os.environ.get('VERIF_SEED', '7')))
ctx = props.Ctx('FID', 'quick', 7)
vlib.build_harness(('s1',)); print(vlib.coq_make()[0], vlib.build_driver())
sets = [('struct', gen.grid_struct_lines()), ('enum', gen.grid_enum_lines(full=False)), ('vfield', gen.grid_variant_fields()), ('trait', gen.grid_trait_instrs()),
        ('comp', gen.composites(rng, n)), ('c03', gen.c03_cases(rng, n // 2)), ('c06', gen.c06_cases(rng, n // 2)), ('c10', gen.c10_cases(rng, n // 4)),
        ('short', gen.shortcut_items(rng, n // 4)), ('corpus', props.corpus_cases())]
for name, items in sets:
    recs = ctx.run_set(name, items, vlib.obs_full)
    d = [r for r in recs if r.get('agree') == 'diff']
    print(name, len(recs), 'diff', len(d))
    for r in d[:int(os.environ.get('SHOW', '1'))]:
        print('   ', r['text'].replace('\n', ' ')[:300])
