#!/usr/bin/env python3
"""confirm a seeded change produced by a sub-agent: usage confirm_mut.py <label> <agent-worktree> <property> [demo command]
 (with a demo command - e.g. one that builds the syn2 configuration - the demonstration is that command: exit 0 without the patch, non-zero with it)
 - fresh scratch worktree of /repo HEAD under /tmp/confirm/<label>
 - copy the agent's untracked files (the demonstration) into it
 - run the whole suite without the patch (everything, demo included, must pass)
 - apply out/patch.diff, run again: every pre-existing test passes, the demo fails
 - on success copy patch.diff + demo + notes + meta.json into /verif/seeded/<label>/ ; always remove the scratch worktree"""
import sys, os, subprocess, json, shutil, re
label, wt, prop = sys.argv[1], sys.argv[2], sys.argv[3]
demo_cmd = sys.argv[4] if len(sys.argv) > 4 else None
scratch = '/tmp/confirm/' + label
env = dict(os.environ, CARGO_NET_OFFLINE='true')

def sh(cmd, cwd=None, timeout=3600):
    p = subprocess.run(cmd, shell=True, cwd=cwd, env=env, stdout=subprocess.PIPE, stderr=subprocess.STDOUT, text=True, timeout=timeout)
    return p.returncode, p.stdout

def nextest(cwd):
    rc, out = sh('cargo nextest run --workspace --no-fail-fast --offline 2>&1', cwd)
    m = re.search(r'Summary.*?(\d+) tests? run: (\d+) passed(?: \(.*?\))?(?:, (\d+) failed)?', out)
    failed = sorted(set(' '.join(x) for x in re.findall(r'^\s+FAIL \[[^\]]*\]\s+(?:\(\s*\d+/\d+\)\s+)?(\S+)\s+(\S+)', out, flags=re.M)))
    return rc, out, (int(m.group(1)), int(m.group(2)), int(m.group(3) or 0)) if m else None, failed

res = {'label': label, 'property': prop, 'agent_worktree': wt}
try:
    os.makedirs('/tmp/confirm', exist_ok=True)
    sh('git -C /repo worktree remove --force %s' % scratch)
    rc, o = sh('git -C /repo worktree add --detach %s HEAD' % scratch)
    assert rc == 0, o
    rc, o = sh('git status --porcelain --untracked-files=all', wt)
    demo = [l[3:] for l in o.splitlines() if l.startswith('?? ') and not l[3:].startswith('out/') and not l[3:].startswith('target')]
    res['demo_files'] = demo
    for f in demo:
        os.makedirs(os.path.dirname(os.path.join(scratch, f)) or scratch, exist_ok=True)
        shutil.copy(os.path.join(wt, f), os.path.join(scratch, f))
    # tracked files the agent changed besides the patch (e.g. Cargo.toml for a demo crate)?
    rc, o = sh('git diff --stat', wt)
    res['agent_diffstat'] = o.strip().splitlines()[-3:]
    rc, out, summ, failed = nextest(scratch)
    res['without_patch'] = {'rc': rc, 'summary': summ, 'failed': failed}
    if demo_cmd:
        drc, dout = sh(demo_cmd, scratch)
        res['demo_cmd'] = demo_cmd
        res['demo_without_patch'] = {'rc': drc, 'tail': dout[-600:]}
    rc, o = sh('git apply %s' % os.path.join(wt, 'out/patch.diff'), scratch)
    res['patch_applies'] = rc == 0
    assert rc == 0, 'patch does not apply: ' + o
    rc2, out2, summ2, failed2 = nextest(scratch)
    res['with_patch'] = {'rc': rc2, 'summary': summ2, 'failed': failed2}
    stems = [os.path.splitext(os.path.basename(f))[0] for f in demo if f.endswith('.rs')]
    pre_existing_failed = [t for t in failed2 if not any(s in t for s in stems)]
    res['pre_existing_failed_with_patch'] = pre_existing_failed
    compile_broke = summ2 is None
    res['compile_error_with_patch'] = compile_broke
    if compile_broke:
        res['with_patch_tail'] = out2[-3000:]
    ok = (res['without_patch']['rc'] == 0 and summ is not None and summ[0] >= 1268 and
          ((summ2 is not None and not pre_existing_failed and len(failed2) > 0) or False))
    res['confirmed'] = bool(ok)
    if demo_cmd:
        drc2, dout2 = sh(demo_cmd, scratch)
        res['demo_with_patch'] = {'rc': drc2, 'tail': dout2[-1200:]}
        res['confirmed'] = bool(res['without_patch']['rc'] == 0 and summ and summ[0] >= 1268 and summ2 is not None and not pre_existing_failed
                                and res['demo_without_patch']['rc'] == 0 and drc2 != 0)
    if compile_broke:
        # a demo whose failure is a compile error of generated code: check that the pre-existing suite alone still passes
        for f in demo:
            os.remove(os.path.join(scratch, f))
        rc3, out3, summ3, failed3 = nextest(scratch)
        res['with_patch_without_demo'] = {'rc': rc3, 'summary': summ3, 'failed': failed3}
        res['confirmed'] = bool(res['without_patch']['rc'] == 0 and rc3 == 0 and summ3 and summ3[0] >= 1268)
except Exception as e:
    res['error'] = str(e)[:3000]
    res['confirmed'] = False
finally:
    sh('git -C /repo worktree remove --force %s' % scratch)
    shutil.rmtree(scratch, ignore_errors=True)
dst = '/verif/seeded/' + label
if res.get('confirmed'):
    os.makedirs(dst, exist_ok=True)
    shutil.copy(os.path.join(wt, 'out/patch.diff'), os.path.join(dst, 'patch.diff'))
    if os.path.exists(os.path.join(wt, 'out/notes.md')):
        shutil.copy(os.path.join(wt, 'out/notes.md'), os.path.join(dst, 'notes.md'))
    os.makedirs(os.path.join(dst, 'demo'), exist_ok=True)
    for f in res.get('demo_files', []):
        d = os.path.join(dst, 'demo', f)
        os.makedirs(os.path.dirname(d), exist_ok=True)
        shutil.copy(os.path.join(wt, f), d)
    meta = {'property': prop, 'label': label, 'confirmed_by': 'tools/confirm_mut.py', 'what_ran': {
        'without_patch': res['without_patch'], 'with_patch': res.get('with_patch'), 'with_patch_without_demo': res.get('with_patch_without_demo'),
        'demo_cmd': res.get('demo_cmd'), 'demo_without_patch': res.get('demo_without_patch'), 'demo_with_patch': res.get('demo_with_patch')},
        'demo_files': res.get('demo_files'), 'needs': 'see notes.md', 'detected_by': None}
    json.dump(meta, open(os.path.join(dst, 'meta.json'), 'w'), indent=1)
print(json.dumps(res, indent=1)[:6000])
