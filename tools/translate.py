#!/usr/bin/env python3
"""Translator: /repo source text -> coq/Gen/*.v (regenerated on every check).

Only code that *is* a table or a token template is translated; control flow is modelled by hand
(coq/Model) and tied by the correspondence run.  If a construct is not recognised the translator
raises TranslateError: the check then reports the tie as broken instead of guessing.
"""
import os, re, sys, json, collections

REPO = os.environ.get('O2O_REPO', '/repo')
OUT = os.path.join(os.path.dirname(os.path.abspath(__file__)), '..', 'coq', 'Gen')


class TranslateError(Exception):
    pass


def read(rel):
    with open(os.path.join(REPO, rel)) as f:
        return f.read()


def coq_str(s):
    return '"' + s.replace('"', '""') + '"'


def coq_list(items):
    return '[' + '; '.join(items) + ']'


def coq_strs(l):
    return coq_list([coq_str(x) for x in l])


def coq_bool(b):
    return 'true' if b else 'false'


# ---------------------------------------------------------------- Rust text helpers
def strip_comments(src):
    out = []
    i = 0
    n = len(src)
    while i < n:
        c = src[i]
        if c == '"':
            j = i + 1
            while j < n and src[j] != '"':
                if src[j] == '\\':
                    j += 1
                j += 1
            out.append(src[i:j + 1])
            i = j + 1
        elif src.startswith('//', i):
            j = src.find('\n', i)
            if j < 0:
                j = n
            i = j
        elif src.startswith('/*', i):
            j = src.find('*/', i)
            i = j + 2
        else:
            out.append(c)
            i += 1
    return ''.join(out)


def matching(src, i):
    """index of the bracket matching src[i] (one of ([{ ), string-aware"""
    pairs = {'(': ')', '[': ']', '{': '}'}
    depth = 0
    n = len(src)
    j = i
    while j < n:
        c = src[j]
        if c == '"':
            j += 1
            while j < n and src[j] != '"':
                if src[j] == '\\':
                    j += 1
                j += 1
        elif c == "'" and j + 2 < n and (src[j + 2] == "'" or (src[j + 1] == '\\' and src[j + 3] == "'")):
            j += 3 if src[j + 2] == "'" else 4
            continue
        elif c in '([{':
            depth += 1
        elif c in ')]}':
            depth -= 1
            if depth == 0:
                return j
        j += 1
    raise TranslateError('unbalanced bracket')


def fn_body(src, name):
    m = re.search(r'\bfn\s+' + re.escape(name) + r'\b', src)
    if not m:
        raise TranslateError('function %s not found' % name)
    i = src.index('{', m.end())
    # skip generic / where braces: the first `{` after the signature's `)`... signatures here have no braces
    j = matching(src, i)
    return src[i + 1:j]


def match_arms(body, head_re):
    """split `match <head> { arms }` into (pattern, guard, body) triples"""
    m = re.search(head_re, body)
    if not m:
        raise TranslateError('match head not found: ' + head_re)
    i = body.index('{', m.end() - 1)
    j = matching(body, i)
    text = body[i + 1:j]
    arms = []
    k = 0
    n = len(text)
    while k < n:
        # pattern up to top-level =>
        d = 0
        p = k
        in_str = False
        while p < n:
            c = text[p]
            if c == '"':
                p += 1
                while text[p] != '"':
                    if text[p] == '\\':
                        p += 1
                    p += 1
            elif c in '([{':
                d += 1
            elif c in ')]}':
                d -= 1
            elif d == 0 and text.startswith('=>', p):
                break
            p += 1
        if p >= n:
            break
        pat = text[k:p].strip()
        q = p + 2
        # body: either a block { } or an expression up to a top-level comma
        while q < n and text[q].isspace():
            q += 1
        if q < n and text[q] == '{':
            e = matching(text, q)
            b = text[q:e + 1]
            q = e + 1
            while q < n and text[q] in ' \n\t,':
                q += 1
        else:
            d = 0
            e = q
            while e < n:
                c = text[e]
                if c == '"':
                    e += 1
                    while text[e] != '"':
                        if text[e] == '\\':
                            e += 1
                        e += 1
                elif c in '([{':
                    d += 1
                elif c in ')]}':
                    d -= 1
                elif d == 0 and c == ',':
                    break
                e += 1
            b = text[q:e]
            q = e + 1
        guard = None
        gm = re.search(r'\bif\b(.*)$', pat, re.S)
        if gm and '"' not in gm.group(1):
            guard = gm.group(1).strip()
            pat = pat[:gm.start()].strip()
        arms.append((pat, guard, b.strip()))
        k = q
    return arms


def guard_of(g):
    if g is None:
        return 'GNone'
    if g == 'own_instr':
        return 'GOwn'
    if g == 'bark':
        return 'GBark'
    raise TranslateError('unknown guard: %r' % g)


def names_of(pat):
    if pat.strip() == '_':
        return []
    names = re.findall(r'"([^"]*)"', pat)
    rest = re.sub(r'"[^"]*"', '', pat).replace('|', '').strip()
    if rest or not names:
        raise TranslateError('unrecognised pattern: %r' % pat)
    return names


def slots_of(body):
    return re.findall(r'\b(appl_\w+)\(instr_str\)', body)


def classify(body, names, enum, classes):
    m = re.search(enum + r'::(\w+)', body)
    if not m:
        raise TranslateError('arm body without %s: %r' % (enum, body[:80]))
    ctor = m.group(1)
    if ctor in ('Misnamed', 'Misplaced'):
        im = re.search(r'instr:\s*"([^"]*)"', body)
        if not im or names != [im.group(1)]:
            raise TranslateError('Mis* arm whose instr differs from its pattern: %r' % body[:120])
        if ctor == 'Misnamed':
            gm = re.search(r'guess_name:\s*"([^"]*)"', body)
            return classes['Misnamed'] % coq_str(gm.group(1))
        return classes['Misplaced']
    if ctor == 'Map':
        fm = re.search(r'fallible:\s*(true|false)', body)
        if not fm:
            raise TranslateError('Map arm without fallible literal')
        return classes['Map'] % fm.group(1)
    if ctor not in classes:
        raise TranslateError('unknown constructor %s::%s' % (enum, ctor))
    return classes[ctor]


DT_CLASSES = {
    'AllowUnknown': 'DcAllowUnknown', 'Map': '(DcMap %s)', 'Ghosts': 'DcGhosts', 'ChildParents': 'DcChildParents',
    'Where': 'DcWhere', 'Misnamed': '(DcMisnamed %s)', 'Misplaced': 'DcMisplaced',
    'UnrecognizedWithError': 'DcUnrecErr', 'Unrecognized': 'DcUnrec',
}
MB_CLASSES = {
    'Map': '(McMap %s)', 'Ghost': 'McGhost', 'Ghosts': 'McGhosts', 'Child': 'McChild', 'Parent': 'McParent', 'As': 'McAs',
    'Lit': 'McLit', 'Pat': 'McPat', 'Repeat': 'McRepeat', 'SkipRepeat': 'McSkip', 'StopRepeat': 'McStop',
    'VariantTypeHint': 'McTypeHint', 'Misnamed': '(McMisnamed %s)', 'Misplaced': 'McMisplaced',
    'UnrecognizedWithError': 'McUnrecErr', 'Unrecognized': 'McUnrec',
}


def gen_tables():
    src = strip_comments(read('o2o-impl/src/attr.rs'))
    facts = {}
    # appl_* functions
    appl = []
    for m in re.finditer(r'fn\s+(appl_\w+)\s*\(\s*instr:\s*&str\s*\)\s*->\s*bool\s*\{\s*matches!\(\s*instr\s*,([^)]*)\)\s*\}', src):
        appl.append((m.group(1), names_of(m.group(2))))
    if len(appl) != len(re.findall(r'fn\s+appl_\w+', src)) or not appl:
        raise TranslateError('an appl_* function is not of the form matches!(instr, "a" | "b" ...)')
    facts['appl_fns'] = appl

    def arms_of(fn, enum, classes):
        body = fn_body(src, fn)
        out = []
        for pat, guard, b in match_arms(body, r'match\s+instr_str\.as_ref\(\)\s*\{'):
            names = names_of(pat)
            out.append((names, guard_of(guard), classify(b, names, enum, classes), slots_of(b)))
        return out
    facts['dt_arms'] = arms_of('parse_data_type_instruction', 'DataTypeInstruction', DT_CLASSES)
    facts['mb_arms'] = arms_of('parse_member_instruction', 'MemberInstruction', MB_CLASSES)

    # nested [instr(..)] inside #[parent(...)]
    m = re.search(r'impl\s+Parse\s+for\s+ParentChildFieldAsParsed', src)
    i = src.index('{', m.end())
    body = src[i:matching(src, i) + 1]
    arms = match_arms(body, r'match\s+instr_str\.as_ref\(\)\s*\{')
    if len(arms) != 3 or names_of(arms[1][0]) != ['parent'] or arms[2][0] != '_':
        raise TranslateError('nested parent instruction match has an unexpected shape')
    facts['nested_map_names'] = names_of(arms[0][0])
    facts['nested_map_slots'] = slots_of(arms[0][2])

    def const_strs(name):
        m = re.search(r'const\s+' + name + r'\s*:\s*\[&str;\s*\d+\]\s*=\s*\[([^\]]*)\]', src)
        if not m:
            raise TranslateError('const %s not found' % name)
        return re.findall(r'"([^"]*)"', m.group(1))
    facts['member_repeat_types'] = const_strs('MEMBER_REPEAT_TYPES')
    facts['trait_repeat_types'] = const_strs('TRAIT_REPEAT_TYPES')

    body = fn_body(src, 'add_as_type_attrs')
    arrs = re.findall(r'applicable_to:\s*\[([^\]]*)\]', body)
    acts = re.findall(r'action:\s*Some\(quote!\(~ as #(\w+)\)\)', body)
    if len(arrs) != 2 or acts != ['this_ty', 'that_ty']:
        raise TranslateError('add_as_type_attrs has an unexpected shape')
    facts['as_type_appl_from'] = [x.strip() == 'true' for x in arrs[0].split(',')]
    facts['as_type_appl_into'] = [x.strip() == 'true' for x in arrs[1].split(',')]

    disp = re.findall(r'FallibleKind\(Kind::(\w+),\s*(true|false)\)\s*=>\s*f\.write_str\("([^"]*)"\)', src)
    if len(disp) != 12:
        raise TranslateError('FallibleKind Display table has an unexpected shape')
    facts['fallible_kind_display'] = disp

    # the Index<&Kind> impl: which slot each kind reads
    idx = re.findall(r'Kind::(\w+)\s*=>\s*&self\[(\d)\]', src)
    if len(idx) != 6:
        raise TranslateError('Index<&Kind> for ApplicableTo has an unexpected shape')
    facts['kind_slot'] = [(k, int(n)) for k, n in idx]

    o = []
    o.append('(* GENERATED by tools/translate.py from /repo/o2o-impl/src/attr.rs - do not edit. *)')
    o.append('From Coq Require Import List String.')
    o.append('Import ListNotations.')
    o.append('Open Scope string_scope.')
    o.append('')
    o.append('Inductive guard := GNone | GOwn | GBark.')
    o.append('Inductive dt_class :=')
    o.append('| DcAllowUnknown | DcMap (fallible : bool) | DcGhosts | DcChildParents | DcWhere')
    o.append('| DcMisnamed (guess : string) | DcMisplaced | DcUnrecErr | DcUnrec.')
    o.append('Inductive mb_class :=')
    o.append('| McMap (fallible : bool) | McGhost | McGhosts | McChild | McParent | McAs | McLit | McPat')
    o.append('| McRepeat | McSkip | McStop | McTypeHint')
    o.append('| McMisnamed (guess : string) | McMisplaced | McUnrecErr | McUnrec.')
    o.append('')
    o.append('(* fn appl_*(instr) -> bool { matches!(instr, ...) } *)')
    o.append('Definition appl_fns : list (string * list string) :=')
    o.append('  ' + coq_list(['(%s, %s)' % (coq_str(n), coq_strs(l)) for n, l in appl]) + '.')
    o.append('')
    for key in ('dt_arms', 'mb_arms'):
        ty = 'dt_class' if key == 'dt_arms' else 'mb_class'
        o.append('(* match arms in source order: (names ([] = wildcard), guard, class, appl_* function per slot) *)')
        o.append('Definition %s : list (list string * guard * %s * list string) :=' % (key, ty))
        o.append('  ' + coq_list(['\n   (%s, %s, %s, %s)' % (coq_strs(n), g, c, coq_strs(s)) for n, g, c, s in facts[key]]) + '.')
        o.append('')
    o.append('Definition nested_map_names : list string := %s.' % coq_strs(facts['nested_map_names']))
    o.append('Definition nested_map_slots : list string := %s.' % coq_strs(facts['nested_map_slots']))
    o.append('Definition member_repeat_types : list string := %s.' % coq_strs(facts['member_repeat_types']))
    o.append('Definition trait_repeat_types : list string := %s.' % coq_strs(facts['trait_repeat_types']))
    o.append('Definition as_type_appl_from : list bool := %s.' % coq_list([coq_bool(b) for b in facts['as_type_appl_from']]))
    o.append('Definition as_type_appl_into : list bool := %s.' % coq_list([coq_bool(b) for b in facts['as_type_appl_into']]))
    o.append('(* FallibleKind Display: (kind, fallible, text) *)')
    o.append('Definition fallible_kind_display : list (string * bool * string) :=')
    o.append('  ' + coq_list(['(%s, %s, %s)' % (coq_str(k), f, coq_str(t)) for k, f, t in disp]) + '.')
    o.append('(* impl Index<&Kind> for ApplicableTo: slot read by each kind *)')
    o.append('Definition kind_slot : list (string * nat) :=')
    o.append('  ' + coq_list(['(%s, %d)' % (coq_str(k), n) for k, n in facts['kind_slot']]) + '.')
    o.append('')
    return '\n'.join(o), facts


GENERATORS = {'Tables.v': gen_tables}


# ---------------------------------------------------------------- quote! skeletons
RUST_OPS = ['<<=', '>>=', '...', '..=', '::', '->', '=>', '==', '!=', '<=', '>=', '&&', '||', '+=', '-=', '*=', '/=',
            '%=', '^=', '&=', '|=', '<<', '>>', '..']
PUNCT_CHARS = set('!#$%&*+,-./:;<=>?@^|~')


def tokenize_quote(text):
    """Rust token trees of a quote! body -> nested python list of stoks
    ('I', s) ('P', c, joint) ('L', s) ('G', d, [..]) ('H', name)"""
    pos = 0
    n = len(text)

    def parse_seq(close):
        nonlocal pos
        out = []
        while pos < n:
            c = text[pos]
            if c.isspace():
                pos += 1
                continue
            if c in ')]}':
                if c != close:
                    raise TranslateError('unbalanced quote! body')
                pos += 1
                return out
            if c in '([{':
                pos += 1
                inner = parse_seq({'(': ')', '[': ']', '{': '}'}[c])
                out.append(('G', {'(': 'DParen', '[': 'DBracket', '{': 'DBrace'}[c], inner))
                continue
            if c == '#':
                m = re.match(r'#([A-Za-z_][A-Za-z0-9_]*)', text[pos:])
                if m:
                    out.append(('H', m.group(1)))
                    pos += m.end()
                    continue
                if text.startswith('#(', pos):
                    raise TranslateError('repetition in a skeleton is not supported')
                # a literal `#` (attribute position): quote! needs `#` followed by non-ident
                out.append(('P', '#', False))
                pos += 1
                continue
            if c == "'":
                m = re.match(r"'([A-Za-z_][A-Za-z0-9_]*)", text[pos:])
                if not m:
                    raise TranslateError('char literal in skeleton')
                out.append(('P', "'", True))
                out.append(('I', m.group(1)))
                pos += m.end()
                continue
            if c == '"':
                j = pos + 1
                while text[j] != '"':
                    if text[j] == '\\':
                        j += 1
                    j += 1
                out.append(('L', text[pos:j + 1]))
                pos = j + 1
                continue
            m = re.match(r'[A-Za-z_][A-Za-z0-9_]*', text[pos:])
            if m:
                out.append(('I', m.group(0)))
                pos += m.end()
                continue
            m = re.match(r'[0-9][A-Za-z0-9_]*', text[pos:])
            if m:
                out.append(('L', m.group(0)))
                pos += m.end()
                continue
            if c in PUNCT_CHARS:
                for op in RUST_OPS:
                    if text.startswith(op, pos):
                        for k, ch in enumerate(op):
                            out.append(('P', ch, k < len(op) - 1))
                        pos += len(op)
                        break
                else:
                    out.append(('P', c, False))
                    pos += 1
                continue
            raise TranslateError('unexpected character %r in skeleton' % c)
        if close is not None:
            raise TranslateError('unterminated group in skeleton')
        return out
    return parse_seq(None)


def coq_stoks(l):
    def one(t):
        if t[0] == 'I':
            return 'SI %s' % coq_str(t[1])
        if t[0] == 'P':
            return 'SP %s%%char %s' % (coq_str(t[1]), coq_bool(t[2]))
        if t[0] == 'L':
            return 'SL %s' % coq_str(t[1])
        if t[0] == 'H':
            return 'SH %s' % coq_str(t[1])
        return 'SG %s %s' % (t[1], coq_stoks(t[2]))
    return coq_list([one(t) for t in l])


def quote_blocks(body):
    """all quote!{..} / quote!(..) blocks of a function body, in source order"""
    out = []
    for m in re.finditer(r'quote!\s*([\{\(])', body):
        i = m.end() - 1
        j = matching(body, i)
        out.append(body[i + 1:j])
    return out


def stok_holes(l):
    hs = []
    for t in l:
        if t[0] == 'H':
            hs.append(t[1])
        elif t[0] == 'G':
            hs += stok_holes(t[2])
    return hs


def gen_skeleton():
    src = strip_comments(read('o2o-impl/src/expand.rs'))
    skels = []

    def take(fn, names):
        blocks = quote_blocks(fn_body(src, fn))
        if len(blocks) != len(names):
            raise TranslateError('%s: expected %d quote! blocks, found %d' % (fn, len(names), len(blocks)))
        for nm, b in zip(names, blocks):
            skels.append((nm, tokenize_quote(b)))
    take('quote_from_trait', ['sk_from'])
    take('quote_try_from_trait', ['sk_try_from'])
    take('quote_into_trait', ['sk_into_body_post', 'sk_into_body_plain', 'sk_into'])
    take('quote_try_into_trait', ['sk_try_into_body_post', 'sk_try_into_body_plain', 'sk_try_into'])
    take('quote_into_existing_trait', ['sk_into_existing'])
    take('quote_try_into_existing_trait', ['sk_try_into_existing'])
    # structure checks on the two body matches (the model hard-codes which block is used when)
    for fn in ('quote_into_trait', 'quote_try_into_trait'):
        b = fn_body(src, fn)
        if not re.search(r'let\s+body\s*=\s*match\s+post_init\s*\{\s*Some\(post_init\)\s*=>\s*quote!', b) or \
           not re.search(r'None\s*=>\s*quote!', b):
            raise TranslateError('%s: `let body = match post_init {Some.. None..}` not recognised' % fn)
    # render_parent: 8 arms keyed by (kind, fallible)
    body = fn_body(src, 'render_parent')
    arms = match_arms(body, r'match\s*\(&ctx\.kind,\s*ctx\.fallible\)\s*\{')
    rp = []
    for pat, guard, b in arms:
        m = re.match(r'\(Kind::(\w+),\s*(true|false)\)$', pat.strip())
        if not m:
            if pat.strip() == '_':
                continue
            raise TranslateError('render_parent arm %r' % pat)
        qb = quote_blocks(b)
        if len(qb) != 1:
            raise TranslateError('render_parent arm body')
        rp.append((m.group(1), m.group(2), tokenize_quote(qb[0])))
    if len(rp) != 8:
        raise TranslateError('render_parent: expected 8 arms')
    # err_ty destructuring used by the three try_ skeletons
    for fn in ('quote_try_from_trait', 'quote_try_into_trait', 'quote_try_into_existing_trait'):
        b = fn_body(src, fn)
        if not re.search(r'let\s+err_ty\s*=\s*ctx\.struct_attr\.err_ty\.as_ref\(\)\.unwrap\(\);\s*let\s*\(err_ty,\s*err_gens\)\s*=\s*\(&err_ty\.path,\s*&err_ty\.generics\);', b):
            raise TranslateError('%s: err_ty/err_gens binding not recognised' % fn)
    o = []
    o.append('(* GENERATED by tools/translate.py from /repo/o2o-impl/src/expand.rs - do not edit. *)')
    o.append('From Coq Require Import List String Ascii.')
    o.append('From O2o.Model Require Import Tok.')
    o.append('Import ListNotations.')
    o.append('Open Scope string_scope.')
    o.append('')
    o.append('(* a quote! body: literal tokens and #holes *)')
    o.append('Inductive stok := SI (s : string) | SP (c : ascii) (joint : bool) | SL (s : string)')
    o.append('                | SG (d : delim) (l : list stok) | SH (hole : string).')
    o.append('')
    for nm, toks in skels:
        o.append('Definition %s : list stok :=\n  %s.' % (nm, coq_stoks(toks)))
        o.append('')
    o.append('(* render_parent: (kind, fallible, template) *)')
    o.append('Definition sk_render_parent : list (string * bool * list stok) :=')
    o.append('  ' + coq_list(['\n   (%s, %s, %s)' % (coq_str(k), f, coq_stoks(t)) for k, f, t in rp]) + '.')
    o.append('')
    o.append('Definition all_skeletons : list (string * list stok) :=')
    o.append('  ' + coq_list(['(%s, %s)' % (coq_str(nm), nm) for nm, _ in skels]) + '.')
    o.append('')
    facts = {'skeletons': {nm: stok_holes(t) for nm, t in skels}}
    return '\n'.join(o), facts


GENERATORS['Skeleton.v'] = gen_skeleton


# ---------------------------------------------------------------- unordered containers (C19)
def split_fns(src):
    """(fn name, body text) for every fn item of a source file (nested closures stay inside their fn)"""
    out = []
    for m in re.finditer(r'\bfn\s+(\w+)\b', src):
        try:
            i = src.index('{', m.end())
            semi = src.find(';', m.end())
            if 0 <= semi < i:
                continue
            j = matching(src, i)
        except (ValueError, TranslateError):
            continue
        out.append((m.group(1), src[m.start():j + 1]))
    return out


def gen_unordered():
    uses = []
    containers = []
    for f in ('ast.rs', 'attr.rs', 'expand.rs', 'validate.rs'):
        src = strip_comments(read('o2o-impl/src/' + f))
        for fn, body in split_fns(src):
            names = set()
            for m in re.finditer(r'let\s+(?:mut\s+)?(\w+)\s*(?::\s*[^=;]*?)?=\s*Hash(Map|Set)\s*::', body):
                names.add((m.group(1), 'Hash' + m.group(2)))
            for m in re.finditer(r'let\s+(?:mut\s+)?(\w+)\s*:\s*Hash(Map|Set)\b', body):
                names.add((m.group(1), 'Hash' + m.group(2)))
            for m in re.finditer(r'let\s+(?:mut\s+)?(\w+)\s*=[^;]*?collect::<\s*Hash(Map|Set)\b', body, re.S):
                names.add((m.group(1), 'Hash' + m.group(2)))
            head = body[:body.index('{')]
            for m in re.finditer(r'(\w+)\s*:\s*&(?:mut\s+)?Hash(Map|Set)\b', head):
                names.add((m.group(1), 'Hash' + m.group(2)))
            for var, ty in sorted(names):
                containers.append((f, fn, var, ty))
                # a later `let [mut] var: Vec<..> = ...;` rebinds the name to an ordered container: uses after that
                # statement are not uses of the map
                full_body = body
                rb = re.search(r'let\s+(?:mut\s+)?' + re.escape(var) + r'\s*:\s*Vec\b[^;]*;', body)
                if rb:
                    body = body[:rb.end()]
                for m in re.finditer(r'(?<![\w.])' + re.escape(var) + r'\s*\.\s*(\w+)\s*\(', body):
                    method = m.group(1)
                    sorted_after = False
                    if method in ('iter', 'into_iter', 'keys', 'values', 'drain'):
                        # `let mut v: Vec<_> = X.iter().collect(); v.sort_by(|a, b| a.0.cmp(b.0));`
                        tail = full_body[m.start():m.start() + 400]
                        sorted_after = re.match(re.escape(var) + r'\s*\.\s*iter\(\)\s*\.collect\(\);\s*(\w+)\.sort_by\(\|a,\s*b\|\s*a\.0\.cmp\(b\.0\)\);', tail) is not None \
                            or re.match(re.escape(var) + r'\s*\.\s*iter\(\)\s*\.collect\(\);\s*(\w+)\.sort\(\);', tail) is not None
                    uses.append((f, fn, var, method, sorted_after))
                for m in re.finditer(r'\bfor\b[^{;]*\bin\s+&?(?:mut\s+)?' + re.escape(var) + r'\b(?!\s*\.)', body):
                    uses.append((f, fn, var, 'for-in', False))
                body = full_body
    if not containers:
        raise TranslateError('no HashMap/HashSet found at all: the scan no longer recognises the code')
    o = []
    o.append('(* GENERATED by tools/translate.py: every HashMap/HashSet of o2o-impl/src and every method called on it. *)')
    o.append('From Coq Require Import List String.')
    o.append('Import ListNotations.')
    o.append('Open Scope string_scope.')
    o.append('')
    o.append('(* (file, fn, variable, container type) *)')
    o.append('Definition unordered_containers : list (string * string * string * string) :=')
    o.append('  ' + coq_list(['(%s, %s, %s, %s)' % tuple(coq_str(x) for x in c) for c in containers]) + '.')
    o.append('(* (file, fn, variable, method, iteration result is sorted by key right away) *)')
    o.append('Definition unordered_uses : list (string * string * string * string * bool) :=')
    o.append('  ' + coq_list(['\n   (%s, %s, %s, %s, %s)' % (coq_str(a), coq_str(b), coq_str(c), coq_str(d), coq_bool(e)) for a, b, c, d, e in uses]) + '.')
    o.append('')
    return '\n'.join(o), {'containers': containers, 'uses': len(uses)}


GENERATORS['Unordered.v'] = gen_unordered


# ---------------------------------------------------------------- README (C04, C12)
def gen_readme():
    md = read('README.md')
    # the 12-kind listing: pairs of `// #[name(A)]` comment and `impl PATH<[&]A> for [&]B { ... }`
    listing = re.findall(r'//\s*#\[(\w+)\(A\)\]\s*\n\s*impl\s+([\w:]+)<(&?)A>\s+for\s+(&?)B\s*\{', md)
    if len(listing) != 12:
        raise TranslateError('README: the 12-kind listing was not recognised (%d entries)' % len(listing))
    # the shortcut table
    rows = re.findall(r'^\|\s*\*\*#\[(\w+)\(\)\]\*\*\s*\|(.*)\|\s*$', md, flags=re.M)
    head = re.search(r'^\|\s*\|((?:\s*#\[\w+\(\)\]\s*\|)+)\s*$', md, flags=re.M)
    if not head or len(rows) != 6:
        raise TranslateError('README: the shortcut table was not recognised')
    cols = re.findall(r'#\[(\w+)\(\)\]', head.group(1))
    table = {c: [] for c in cols}
    for name, cells in rows:
        cs = [c.strip() for c in cells.split('|')]
        if len(cs) != len(cols):
            raise TranslateError('README: shortcut table row %s has %d cells' % (name, len(cs)))
        for c, cell in zip(cols, cs):
            if '✔' in cell:
                table[c].append(name)
            elif '❌' not in cell:
                raise TranslateError('README: unexpected cell %r' % cell)
    same = 'Exactly the same shortcuts apply to *fallible* conversions' in md
    if not same:
        raise TranslateError('README: the sentence extending the shortcuts to fallible conversions is gone')
    o = []
    o.append('(* GENERATED by tools/translate.py from /repo/README.md - do not edit. *)')
    o.append('From Coq Require Import List String.')
    o.append('Import ListNotations.')
    o.append('Open Scope string_scope.')
    o.append('')
    o.append('(* the 12-kind listing: (instruction named in the comment, trait path, counterpart by reference, self by reference) *)')
    o.append('Definition readme_listing : list (string * string * bool * bool) :=')
    o.append('  ' + coq_list(['(%s, %s, %s, %s)' % (coq_str(n), coq_str(t), coq_bool(a == '&'), coq_bool(b == '&')) for n, t, a, b in listing]) + '.')
    o.append('(* shortcut table: column (shortcut) -> rows (basic instructions) ticked *)')
    o.append('Definition readme_shortcuts : list (string * list string) :=')
    o.append('  ' + coq_list(['(%s, %s)' % (coq_str(c), coq_strs(table[c])) for c in cols]) + '.')
    o.append('Definition readme_basic_rows : list string := %s.' % coq_strs([r[0] for r in rows]))
    o.append('(* "Exactly the same shortcuts apply to fallible conversions." *)')
    o.append('Definition readme_fallible_same : bool := true.')
    o.append('')
    return '\n'.join(o), {'listing': len(listing), 'shortcuts': cols}


GENERATORS['Readme.v'] = gen_readme


# ---------------------------------------------------------------- o2o-macros: registered helper attributes (C13)
def gen_macros():
    src = strip_comments(read('o2o-macros/src/lib.rs'))
    m = re.search(r'proc_macro_derive\(\s*o2o\s*,\s*attributes\(([^)]*)\)', src, re.S)
    if not m:
        raise TranslateError('o2o-macros: #[proc_macro_derive(o2o, attributes(...))] not found')
    names = [x.strip() for x in m.group(1).replace('\n', ' ').split(',') if x.strip()]
    o = []
    o.append('(* GENERATED by tools/translate.py from /repo/o2o-macros/src/lib.rs - do not edit. *)')
    o.append('From Coq Require Import List String.')
    o.append('Import ListNotations.')
    o.append('Open Scope string_scope.')
    o.append('(* helper attributes registered by the derive: the instructions that have a bare form *)')
    o.append('Definition bare_attributes : list string := %s.' % coq_strs(names))
    o.append('')
    return '\n'.join(o), {'bare': names}


GENERATORS['Macros.v'] = gen_macros



SITE_PATTERNS = [
    ('panic', r'\bpanic!\s*\('), ('unreachable', r'\bunreachable!\s*\('), ('todo', r'\btodo!\s*\('), ('unimplemented', r'\bunimplemented!\s*\('),
    ('unwrap', r'\.unwrap\s*\(\s*\)'), ('expect', r'\.expect\s*\('), ('parse_quote', r'\bparse_quote!\s*[\(\{]'),
    ('assert', r'\b(?:debug_)?assert(?:_eq|_ne)?!\s*\('),
]


def gen_sites():
    """every panic-capable site of the expansion code: (file, enclosing fn, kind, detail, ordinal within the fn)"""
    sites = []
    for f in ('ast.rs', 'attr.rs', 'expand.rs', 'validate.rs'):
        src = strip_comments(read('o2o-impl/src/' + f))
        # the #[cfg(test)] module / tests are not part of the expansion
        src = re.split(r'#\[cfg\(test\)\]', src)[0]
        for fn, body in split_fns(src):
            per = collections.Counter()
            found = []
            for kind, rx in SITE_PATTERNS:
                for m in re.finditer(rx, body):
                    detail = ''
                    if kind in ('unreachable', 'panic'):
                        mm = re.match(r'\s*"((?:[^"\\]|\\.)*)"', body[m.end():])
                        detail = mm.group(1)[:40] if mm else ''
                    elif kind == 'unwrap':
                        # the receiver expression, shortened: what is unwrapped
                        pre = body[max(0, m.start() - 60):m.start()]
                        mm = re.search(r'([\w\.\[\]]+(?:\([^()]*\))?)$', pre.replace('\n', ' '))
                        detail = re.sub(r'\s+', '', mm.group(1))[-40:] if mm else ''
                    found.append((m.start(), kind, detail))
            # indexing expressions `x[expr]` (not attributes, not types, not slice patterns / array literals)
            nostr = re.sub(r'"(?:[^"\\]|\\.)*"', lambda mm: '"' + ' ' * (len(mm.group(0)) - 2) + '"', body)
            for m in re.finditer(r'(?<![#!\w])(\w+(?:\.\w+)*)\s*\[\s*([^\]\[;]+?)\s*\]', nostr):
                recv, idx = m.group(1), m.group(2)
                if recv in ('vec', 'quote', 'matches', 'cfg', 'derive', 'allow') or re.fullmatch(r'[A-Z]\w*', recv) or recv in ('mut', 'let', 'in', 'return'):
                    continue
                if re.fullmatch(r'bool|u8|\d+', idx) and ';' in body[m.start():m.end() + 4]:
                    continue
                found.append((m.start(), 'index', re.sub(r'\s+', '', '%s[%s]' % (recv, idx))[:40]))
            found.sort()
            for _, kind, detail in found:
                per[(kind, detail)] += 1
                sites.append((f, fn, kind, detail, per[(kind, detail)]))
    lines = ['(* GENERATED by tools/translate.py: every panic-capable site of o2o-impl/src/{ast,attr,expand,validate}.rs. *)',
             'From Coq Require Import List String.', 'Import ListNotations.', 'Open Scope string_scope.', '',
             '(* (file, enclosing fn, kind, detail, ordinal of this (kind, detail) within the fn) *)',
             'Definition gen_sites : list (string * string * string * string * nat) :=', '  [']
    lines.append(';\n'.join('   (%s, %s, %s, %s, %d)' % (coq_str(a), coq_str(b), coq_str(c), coq_str(d), e) for a, b, c, d, e in sites))
    lines.append('  ].')
    return '\n'.join(lines) + '\n', {'sites': len(sites)}

GENERATORS['Sites.v'] = gen_sites


# ---------------------------------------------------------------- the two syn versions the lock file pins
def gen_syn_idents():
    """the identifiers syn refuses as `Ident` (accept_as_ident), read from the vendored sources of exactly the syn 1.x and 2.x
    versions /repo/Cargo.lock pins - the one point where the two back-ends' parsers differ on plain tokens (C18)"""
    lock = read('Cargo.lock')
    vers = re.findall(r'name = "syn"\s*\nversion = "([0-9.]+)"', lock)
    home = os.environ.get('CARGO_HOME', os.path.expanduser('~/.cargo'))
    import glob
    lists = {}
    for major in ('1', '2'):
        vs = [v for v in vers if v.split('.')[0] == major]
        if len(vs) != 1:
            raise TranslateError('Cargo.lock: expected exactly one syn %s.x, found %r' % (major, vs))
        paths = glob.glob(os.path.join(home, 'registry', 'src', '*', 'syn-' + vs[0], 'src', 'ident.rs'))
        if not paths:
            raise TranslateError('vendored source of syn %s not found under %s' % (vs[0], home))
        src = strip_comments(open(paths[0]).read())
        i = src.find('fn accept_as_ident')
        if i < 0:
            raise TranslateError('syn %s: accept_as_ident not found' % vs[0])
        body = src[src.index('{', i):]
        body = body[:matching(body, 0) + 1]
        m = re.search(r'match\s+ident\.to_string\(\)\.as_str\(\)\s*\{(.*?)=>\s*false\s*,\s*_\s*=>\s*true\s*,?\s*\}', body, re.S)
        if not m:
            raise TranslateError('syn %s: accept_as_ident is not the expected `match .. { "a" | "b" => false, _ => true }`' % vs[0])
        names = re.findall(r'"([^"]*)"', m.group(1))
        rest = re.sub(r'"[^"]*"', '', m.group(1))
        if re.sub(r'[\s|]', '', rest):
            raise TranslateError('syn %s: unexpected tokens in accept_as_ident: %r' % (vs[0], rest.strip()[:80]))
        lists[major] = (vs[0], names)
    o = []
    o.append('(* GENERATED by tools/translate.py from the vendored syn sources pinned by /repo/Cargo.lock - do not edit. *)')
    o.append('From Coq Require Import List String.')
    o.append('Import ListNotations.')
    o.append('Open Scope string_scope.')
    for major in ('1', '2'):
        v, names = lists[major]
        o.append('Definition syn%s_version : string := %s.' % (major, coq_str(v)))
        o.append('(* syn %s src/ident.rs accept_as_ident: these are refused, every other identifier is accepted *)' % v)
        o.append('Definition syn%s_refused_idents : list string := %s.' % (major, coq_strs(names)))
    o.append('')
    return '\n'.join(o), {'syn1': lists['1'][0], 'syn2': lists['2'][0], 'n1': len(lists['1'][1]), 'n2': len(lists['2'][1])}


GENERATORS['SynIdents.v'] = gen_syn_idents


def main():
    os.makedirs(OUT, exist_ok=True)
    summary = {}
    for name, fn in GENERATORS.items():
        text, facts = fn()
        path = os.path.join(OUT, name)
        old = open(path).read() if os.path.exists(path) else None
        if old != text:
            with open(path, 'w') as f:
                f.write(text)
        summary[name] = {'changed': old != text, 'bytes': len(text)}
    json.dump(summary, sys.stdout)
    print()


if __name__ == '__main__':
    try:
        main()
    except TranslateError as e:
        print('TRANSLATE-ERROR: %s' % e)
        sys.exit(3)
