// C17's direct oracle: re-parse the implementation's output (its Display string) as a Rust file
// with syn 2 (feature "full") and print per-item facts.
use quote::ToTokens;
use std::fmt::Write as _;
use std::io::{BufRead, Write};

fn esc(s: &str, out: &mut String) {
    out.push('"');
    for c in s.chars() {
        match c {
            '"' => out.push_str("\\\""),
            '\\' => out.push_str("\\\\"),
            '\n' => out.push_str("\\n"),
            c => out.push(c),
        }
    }
    out.push('"');
}

fn unesc(s: &str) -> String {
    let s = s.trim();
    let s = &s[1..s.len() - 1];
    let mut out = String::new();
    let mut it = s.chars();
    while let Some(c) = it.next() {
        if c == '\\' {
            match it.next() {
                Some('n') => out.push('\n'),
                Some('r') => out.push('\r'),
                Some('t') => out.push('\t'),
                Some(d) => out.push(d),
                None => {}
            }
        } else {
            out.push(c);
        }
    }
    out
}

fn type_str(t: &syn::Type) -> String {
    t.to_token_stream().to_string().replace(' ', "")
}

fn method(sig: &syn::Signature, nattrs: usize, block: &syn::Block, out: &mut String) {
    let _ = write!(out, " (fn {} (nattrs {}) (args", sig.ident, nattrs);
    for a in &sig.inputs {
        match a {
            syn::FnArg::Receiver(r) => {
                let _ = write!(out, " (self {})", if r.reference.is_some() { "ref" } else { "val" });
            }
            syn::FnArg::Typed(t) => {
                out.push_str(" (arg ");
                esc(&t.pat.to_token_stream().to_string(), out);
                out.push(' ');
                esc(&type_str(&t.ty), out);
                out.push(')');
            }
        }
    }
    out.push_str(") (ret ");
    match &sig.output {
        syn::ReturnType::Default => esc("", out),
        syn::ReturnType::Type(_, t) => esc(&type_str(t), out),
    }
    let inner = block.stmts.iter().filter(|s| matches!(s, syn::Stmt::Item(_))).count();
    let _ = write!(out, ") (stmts {}) (generics {}) (asyncness {}) (unsafety {}))", block.stmts.len() - inner,
        sig.generics.params.len(), sig.asyncness.is_some() as u8, sig.unsafety.is_some() as u8);
}

fn shape_of(text: &str) -> String {
    let file: syn::File = match syn::parse_str(text) {
        Ok(f) => f,
        Err(e) => {
            let mut s = String::from("(shape-parse-fail ");
            esc(&e.to_string(), &mut s);
            s.push(')');
            return s;
        }
    };
    let mut out = String::from("(shape");
    for item in &file.items {
        match item {
            syn::Item::Impl(im) => {
                out.push_str(" (impl ");
                let tr = match &im.trait_ {
                    Some((bang, p, _)) => format!("{}{}", if bang.is_some() { "!" } else { "" }, p.to_token_stream().to_string().replace(' ', "")),
                    None => "-".into(),
                };
                esc(&tr, &mut out);
                out.push(' ');
                esc(&type_str(&im.self_ty), &mut out);
                let _ = write!(out, " (nattrs {})", im.attrs.len());
                let _ = write!(out, " (gens {})", im.generics.params.len());
                let _ = write!(out, " (where {})", if im.generics.where_clause.is_some() { 1 } else { 0 });
                let _ = write!(out, " (unsafe {})", im.unsafety.is_some() as u8);
                for ii in &im.items {
                    match ii {
                        syn::ImplItem::Fn(m) => method(&m.sig, m.attrs.len(), &m.block, &mut out),
                        syn::ImplItem::Type(t) => {
                            let _ = write!(out, " (type {} ", t.ident);
                            esc(&type_str(&t.ty), &mut out);
                            out.push(')');
                        }
                        _ => out.push_str(" (other-impl-item)"),
                    }
                }
                out.push(')');
            }
            _ => out.push_str(" (non-impl-item)"),
        }
    }
    out.push(')');
    out
}

fn main() {
    let stdin = std::io::stdin();
    let stdout = std::io::stdout();
    let mut w = std::io::BufWriter::new(stdout.lock());
    for line in stdin.lock().lines() {
        let line = line.unwrap();
        if line.starts_with("CASE ") {
            writeln!(w, "{}", line).unwrap();
        } else if let Some(rest) = line.strip_prefix("STR ") {
            writeln!(w, "SHAPE {}", shape_of(&unesc(rest))).unwrap();
        }
    }
    w.flush().unwrap();
}
