// C17's direct oracle: re-parse the implementation's output (its Display string) as a Rust file
// with syn 2 (feature "full") and print per-item facts.
use quote::ToTokens;
use std::fmt::Write as _;
use std::io::{BufRead, Write};

fn esc(s: &str, out: &mut String) {
    out.push('"');
    for c in s.chars() {
        match c {
            '"' => out.push_str("\\\""),
            '\\' => out.push_str("\\\\"),
            '\n' => out.push_str("\\n"),
            c => out.push(c),
        }
    }
    out.push('"');
}

fn unesc(s: &str) -> String {
    let s = s.trim();
    let s = &s[1..s.len() - 1];
    let mut out = String::new();
    let mut it = s.chars();
    while let Some(c) = it.next() {
        if c == '\\' {
            match it.next() {
                Some('n') => out.push('\n'),
                Some('r') => out.push('\r'),
                Some('t') => out.push('\t'),
                Some(d) => out.push(d),
                None => {}
            }
        } else {
            out.push(c);
        }
    }
    out
}

fn type_str(t: &syn::Type) -> String {
    t.to_token_stream().to_string().replace(' ', "")
}

fn method(sig: &syn::Signature, nattrs: usize, block: &syn::Block, out: &mut String) {
    let _ = write!(out, " (fn {} (nattrs {}) (args", sig.ident, nattrs);
    for a in &sig.inputs {
        match a {
            syn::FnArg::Receiver(r) => {
                let _ = write!(out, " (self {})", if r.reference.is_some() { "ref" } else { "val" });
            }
            syn::FnArg::Typed(t) => {
                out.push_str(" (arg ");
                esc(&t.pat.to_token_stream().to_string(), out);
                out.push(' ');
                esc(&type_str(&t.ty), out);
                out.push(')');
            }
        }
    }
    out.push_str(") (ret ");
    match &sig.output {
        syn::ReturnType::Default => esc("", out),
        syn::ReturnType::Type(_, t) => esc(&type_str(t), out),
    }
    let inner = block.stmts.iter().filter(|s| matches!(s, syn::Stmt::Item(_))).count();
    let _ = write!(out, ") (stmts {}) (generics {}) (asyncness {}) (unsafety {}))", block.stmts.len() - inner,
        sig.generics.params.len(), sig.asyncness.is_some() as u8, sig.unsafety.is_some() as u8);
}

fn shape_of(text: &str) -> String {
    let file: syn::File = match syn::parse_str(text) {
        Ok(f) => f,
        Err(e) => {
            let mut s = String::from("(shape-parse-fail ");
            esc(&e.to_string(), &mut s);
            s.push(')');
            return s;
        }
    };
    let mut out = String::from("(shape");
    for item in &file.items {
        match item {
            syn::Item::Impl(im) => {
                out.push_str(" (impl ");
                let tr = match &im.trait_ {
                    Some((bang, p, _)) => format!("{}{}", if bang.is_some() { "!" } else { "" }, p.to_token_stream().to_string().replace(' ', "")),
                    None => "-".into(),
                };
                esc(&tr, &mut out);
                out.push(' ');
                esc(&type_str(&im.self_ty), &mut out);
                let _ = write!(out, " (nattrs {})", im.attrs.len());
                let _ = write!(out, " (gens {})", im.generics.params.len());
                let _ = write!(out, " (where {})", if im.generics.where_clause.is_some() { 1 } else { 0 });
                let _ = write!(out, " (unsafe {})", im.unsafety.is_some() as u8);
                for ii in &im.items {
                    match ii {
                        syn::ImplItem::Fn(m) => method(&m.sig, m.attrs.len(), &m.block, &mut out),
                        syn::ImplItem::Type(t) => {
                            let _ = write!(out, " (type {} ", t.ident);
                            esc(&type_str(&t.ty), &mut out);
                            out.push(')');
                        }
                        _ => out.push_str(" (other-impl-item)"),
                    }
                }
                out.push(')');
            }
            _ => out.push_str(" (non-impl-item)"),
        }
    }
    out.push(')');
    out
}


// ---------------------------------------------------------------------------------------------
// SEM: a semantic summary of every impl: header facts + the structure of the method body
// (lets, assignments, the result expression as struct literal / constructor call / tuple / match).
fn ns(t: &impl ToTokens) -> String {
    // the token text without spacing - but literals verbatim: blanks inside a string / char literal are part of its value
    fn go(ts: proc_macro2::TokenStream, out: &mut String) {
        for tt in ts {
            match tt {
                proc_macro2::TokenTree::Group(g) => {
                    let (o, c) = match g.delimiter() {
                        proc_macro2::Delimiter::Parenthesis => ("(", ")"),
                        proc_macro2::Delimiter::Brace => ("{", "}"),
                        proc_macro2::Delimiter::Bracket => ("[", "]"),
                        proc_macro2::Delimiter::None => ("", ""),
                    };
                    out.push_str(o);
                    go(g.stream(), out);
                    out.push_str(c);
                }
                proc_macro2::TokenTree::Literal(l) => out.push_str(&l.to_string()),
                other => out.push_str(&other.to_string().replace(' ', "")),
            }
        }
    }
    let mut out = String::new();
    go(t.to_token_stream(), &mut out);
    out
}

fn sem_expr(e: &syn::Expr, out: &mut String) {
    match e {
        syn::Expr::Struct(s) => {
            out.push_str("(struct ");
            esc(&ns(&s.path), out);
            for f in &s.fields {
                out.push_str(" (f ");
                esc(&ns(&f.member), out);
                out.push(' ');
                sem_expr(&f.expr, out);
                out.push(')');
            }
            if let Some(r) = &s.rest {
                out.push_str(" (rest ");
                sem_expr(r, out);
                out.push(')');
            } else if s.dot2_token.is_some() {
                out.push_str(" (rest-empty)");
            }
            out.push(')');
        }
        syn::Expr::Call(c) if matches!(&*c.func, syn::Expr::Path(_)) => {
            out.push_str("(call ");
            esc(&ns(&c.func), out);
            for a in &c.args {
                out.push(' ');
                sem_expr(a, out);
            }
            out.push(')');
        }
        syn::Expr::Tuple(t) => {
            out.push_str("(tuple");
            for a in &t.elems {
                out.push(' ');
                sem_expr(a, out);
            }
            out.push(')');
        }
        syn::Expr::Paren(p) if p.attrs.is_empty() => {
            out.push_str("(paren ");
            sem_expr(&p.expr, out);
            out.push(')');
        }
        syn::Expr::Try(t) => {
            out.push_str("(try ");
            sem_expr(&t.expr, out);
            out.push(')');
        }
        syn::Expr::Match(m) => {
            out.push_str("(match ");
            esc(&ns(&m.expr), out);
            for a in &m.arms {
                out.push_str(" (arm ");
                esc(&ns(&a.pat), out);
                if let Some((_, g)) = &a.guard {
                    out.push_str(" (guard ");
                    esc(&ns(g), out);
                    out.push(')');
                }
                out.push(' ');
                sem_expr(&a.body, out);
                out.push(')');
            }
            out.push(')');
        }
        syn::Expr::Assign(a) => {
            out.push_str("(assign ");
            esc(&ns(&a.left), out);
            out.push(' ');
            sem_expr(&a.right, out);
            out.push(')');
        }
        syn::Expr::Block(b) if b.attrs.is_empty() && b.label.is_none() => sem_block(&b.block, out),
        other => {
            out.push_str("(raw ");
            esc(&ns(other), out);
            out.push(')');
        }
    }
}

fn sem_block(b: &syn::Block, out: &mut String) {
    out.push_str("(block");
    for st in &b.stmts {
        out.push(' ');
        match st {
            syn::Stmt::Local(l) => {
                out.push_str("(let ");
                esc(&ns(&l.pat), out);
                if let Some(init) = &l.init {
                    out.push(' ');
                    sem_expr(&init.expr, out);
                    if init.diverge.is_some() {
                        out.push_str(" (else)");
                    }
                }
                out.push(')');
            }
            syn::Stmt::Expr(e, semi) => {
                out.push_str(if semi.is_some() { "(stmt " } else { "(tail " });
                sem_expr(e, out);
                out.push(')');
            }
            syn::Stmt::Item(i) => {
                out.push_str("(item ");
                esc(&ns(i), out);
                out.push(')');
            }
            syn::Stmt::Macro(m) => {
                out.push_str("(macro ");
                esc(&ns(m), out);
                out.push(')');
            }
        }
    }
    out.push(')');
}

fn sem_attrs(attrs: &[syn::Attribute], out: &mut String) {
    out.push_str(" (attrs");
    for a in attrs {
        out.push(' ');
        esc(&format!("{}{}", if matches!(a.style, syn::AttrStyle::Inner(_)) { "!" } else { "" }, ns(&a.meta)), out);
    }
    out.push(')');
}

fn sem_of(text: &str) -> String {
    let file: syn::File = match syn::parse_str(text) {
        Ok(f) => f,
        Err(e) => {
            let mut s = String::from("(sem-parse-fail ");
            esc(&e.to_string(), &mut s);
            s.push(')');
            return s;
        }
    };
    let mut out = String::from("(sem");
    for item in &file.items {
        match item {
            syn::Item::Impl(im) => {
                out.push_str(" (impl ");
                let tr = match &im.trait_ {
                    Some((bang, p, _)) => format!("{}{}", if bang.is_some() { "!" } else { "" }, ns(p)),
                    None => "-".into(),
                };
                esc(&tr, &mut out);
                out.push(' ');
                esc(&type_str(&im.self_ty), &mut out);
                out.push_str(" (generics");
                for g in &im.generics.params {
                    out.push(' ');
                    esc(&ns(g), &mut out);
                }
                out.push_str(") (where");
                if let Some(w) = &im.generics.where_clause {
                    for p in &w.predicates {
                        out.push(' ');
                        esc(&ns(p), &mut out);
                    }
                }
                out.push(')');
                sem_attrs(&im.attrs, &mut out);
                for ii in &im.items {
                    match ii {
                        syn::ImplItem::Fn(m) => {
                            let _ = write!(out, " (fn {}", m.sig.ident);
                            sem_attrs(&m.attrs, &mut out);
                            out.push_str(" (sig ");
                            esc(&ns(&m.sig), &mut out);
                            out.push_str(") ");
                            // inner attributes of the body are parsed by syn into the fn's attrs with Inner style
                            sem_block(&m.block, &mut out);
                            out.push(')');
                        }
                        syn::ImplItem::Type(t) => {
                            let _ = write!(out, " (type {} ", t.ident);
                            esc(&type_str(&t.ty), &mut out);
                            out.push(')');
                        }
                        _ => out.push_str(" (other-impl-item)"),
                    }
                }
                out.push(')');
            }
            _ => out.push_str(" (non-impl-item)"),
        }
    }
    out.push(')');
    out
}

fn main() {
    let stdin = std::io::stdin();
    let stdout = std::io::stdout();
    let mut w = std::io::BufWriter::new(stdout.lock());
    for line in stdin.lock().lines() {
        let line = line.unwrap();
        if line.starts_with("CASE ") {
            writeln!(w, "{}", line).unwrap();
        } else if let Some(rest) = line.strip_prefix("STR ") {
            let t = unesc(rest);
            writeln!(w, "SHAPE {}", shape_of(&t)).unwrap();
            writeln!(w, "SEM {}", sem_of(&t)).unwrap();
        } else if let Some(rest) = line.strip_prefix("MSTR ") {
            let t = unesc(rest);
            writeln!(w, "MSHAPE {}", shape_of(&t)).unwrap();
            writeln!(w, "MSEM {}", sem_of(&t)).unwrap();
        }
    }
    w.flush().unwrap();
}
