// Harness: reads derive inputs (Rust source text), prints
//   RAW  = canonical serialisation of what syn hands to o2o (the model's input)
//   OUT  = canonical outcome of o2o_impl::expand::derive under catch_unwind
//   STR  = the output's Display string (fed to the separate `shape` binary, C17's direct oracle)
// One binary per back-end (feature s1 / s2).
#[cfg(feature = "s1")]
extern crate syn1 as syn;
#[cfg(feature = "s2")]
extern crate syn2 as syn;

use proc_macro2::{Delimiter, Spacing, TokenStream, TokenTree};
use quote::ToTokens;
use std::fmt::Write as _;
use std::io::{Read, Write};
use std::panic;

fn esc(s: &str, out: &mut String) {
    out.push('"');
    for c in s.chars() {
        match c {
            '"' => out.push_str("\\\""),
            '\\' => out.push_str("\\\\"),
            '\n' => out.push_str("\\n"),
            '\r' => out.push_str("\\r"),
            '\t' => out.push_str("\\t"),
            c => out.push(c),
        }
    }
    out.push('"');
}

fn toks(ts: TokenStream, out: &mut String) {
    for tt in ts {
        out.push(' ');
        match tt {
            TokenTree::Ident(i) => {
                let _ = write!(out, "(I {})", i);
            }
            TokenTree::Punct(p) => {
                let _ = write!(out, "(P {} {})", p.as_char(), if p.spacing() == Spacing::Joint { 'j' } else { 'a' });
            }
            TokenTree::Literal(l) => {
                out.push_str("(L ");
                esc(&l.to_string(), out);
                out.push(')');
            }
            TokenTree::Group(g) => {
                let d = match g.delimiter() {
                    Delimiter::Parenthesis => 'p',
                    Delimiter::Brace => 'b',
                    Delimiter::Bracket => 'k',
                    Delimiter::None => 'n',
                };
                let _ = write!(out, "(G {}", d);
                toks(g.stream(), out);
                out.push(')');
            }
        }
    }
}

fn attr(a: &syn::Attribute, out: &mut String) {
    out.push_str(" (attr ");
    #[cfg(feature = "s1")]
    let path = &a.path;
    #[cfg(feature = "s2")]
    let path = a.meta.path();
    match path.get_ident() {
        Some(i) => {
            let _ = write!(out, "(pi {})", i);
        }
        None => out.push_str("(po)"),
    }
    out.push_str(" (toks");
    #[cfg(feature = "s1")]
    toks(a.tokens.clone(), out);
    #[cfg(feature = "s2")]
    match &a.meta {
        syn::Meta::Path(_) => {}
        syn::Meta::List(l) => {
            let d = match l.delimiter {
                syn::MacroDelimiter::Paren(_) => Delimiter::Parenthesis,
                syn::MacroDelimiter::Brace(_) => Delimiter::Brace,
                syn::MacroDelimiter::Bracket(_) => Delimiter::Bracket,
            };
            let g = proc_macro2::Group::new(d, l.tokens.clone());
            toks(TokenStream::from(TokenTree::Group(g)), out);
        }
        syn::Meta::NameValue(nv) => {
            let mut ts = TokenStream::new();
            nv.eq_token.to_tokens(&mut ts);
            nv.value.to_tokens(&mut ts);
            toks(ts, out);
        }
    }
    out.push_str("))");
}

fn attrs(v: &[syn::Attribute], out: &mut String) {
    out.push_str(" (attrs");
    for a in v {
        attr(a, out);
    }
    out.push(')');
}

fn fields(fs: &syn::Fields, out: &mut String) {
    out.push_str(" (fields");
    for (i, f) in fs.iter().enumerate() {
        out.push_str(" (field ");
        match &f.ident {
            Some(id) => {
                let _ = write!(out, "(named {})", id);
            }
            None => {
                let _ = write!(out, "(index {})", i);
            }
        }
        match &f.ty {
            syn::Type::Path(p) => {
                out.push_str(" (tp 1");
                toks(p.path.to_token_stream(), out);
                out.push(')');
            }
            _ => out.push_str(" (tp 0)"),
        }
        out.push_str(" (ty");
        toks(f.ty.to_token_stream(), out);
        out.push(')');
        attrs(&f.attrs, out);
        out.push(')');
    }
    out.push(')');
}

fn shape(fs: &syn::Fields) -> &'static str {
    match fs {
        syn::Fields::Named(_) => "named",
        syn::Fields::Unnamed(_) => "tuple",
        syn::Fields::Unit => "unit",
    }
}

fn generics(g: &syn::Generics, out: &mut String) {
    out.push_str(" (generics");
    for pair in g.params.pairs() {
        let has_punct = if pair.punct().is_some() { 1 } else { 0 };
        match pair.value() {
            syn::GenericParam::Lifetime(l) => {
                let _ = write!(out, " (lt {} {} (decl", l.lifetime.ident, has_punct);
                toks(l.to_token_stream(), out);
                out.push_str("))");
            }
            syn::GenericParam::Type(t) => {
                // what ImplGenerics prints for a type parameter: attrs, ident, `: bounds` (no default)
                let mut ts = TokenStream::new();
                for a in t.attrs.iter().filter(|a| matches!(a.style, syn::AttrStyle::Outer)) {
                    a.to_tokens(&mut ts);
                }
                t.ident.to_tokens(&mut ts);
                if !t.bounds.is_empty() {
                    match &t.colon_token {
                        Some(c) => c.to_tokens(&mut ts),
                        None => <syn::Token![:]>::default().to_tokens(&mut ts),
                    }
                    t.bounds.to_tokens(&mut ts);
                }
                let _ = write!(out, " (ty {} {} (decl", t.ident, has_punct);
                toks(ts, out);
                out.push_str("))");
            }
            syn::GenericParam::Const(c) => {
                let mut ts = TokenStream::new();
                for a in c.attrs.iter().filter(|a| matches!(a.style, syn::AttrStyle::Outer)) {
                    a.to_tokens(&mut ts);
                }
                c.const_token.to_tokens(&mut ts);
                c.ident.to_tokens(&mut ts);
                c.colon_token.to_tokens(&mut ts);
                c.ty.to_tokens(&mut ts);
                let _ = write!(out, " (const {} {} (decl", c.ident, has_punct);
                toks(ts, out);
                out.push_str("))");
            }
        }
    }
    out.push(')');
}

fn raw(di: &syn::DeriveInput) -> String {
    let mut out = String::new();
    out.push_str("(input ");
    match &di.data {
        syn::Data::Struct(s) => {
            let _ = write!(out, "(kind struct-{})", shape(&s.fields));
        }
        syn::Data::Enum(_) => out.push_str("(kind enum)"),
        syn::Data::Union(_) => out.push_str("(kind union)"),
    }
    let _ = write!(out, " (ident {})", di.ident);
    generics(&di.generics, &mut out);
    // the item's own where-clause: one token list per predicate
    out.push_str(" (where");
    if let Some(w) = &di.generics.where_clause {
        for p in w.predicates.iter() {
            out.push_str(" (pred");
            toks(p.to_token_stream(), &mut out);
            out.push(')');
        }
    }
    out.push(')');
    attrs(&di.attrs, &mut out);
    match &di.data {
        syn::Data::Struct(s) => fields(&s.fields, &mut out),
        syn::Data::Enum(e) => {
            out.push_str(" (variants");
            for v in &e.variants {
                let _ = write!(out, " (variant {} (shape {})", v.ident, shape(&v.fields));
                attrs(&v.attrs, &mut out);
                fields(&v.fields, &mut out);
                out.push(')');
            }
            out.push(')');
        }
        syn::Data::Union(_) => out.push_str(" (fields)"),
    }
    out.push(')');
    out
}

fn main() {
    let args: Vec<String> = std::env::args().collect();
    let mut text = String::new();
    if args.len() > 1 && args[1] != "-" {
        text = std::fs::read_to_string(&args[1]).expect("read input file");
    } else {
        std::io::stdin().read_to_string(&mut text).unwrap();
    }
    let with_str = args.iter().any(|a| a == "--str");
    let repeat_twice = args.iter().any(|a| a == "--twice");
    panic::set_hook(Box::new(|_| {}));
    let stdout = std::io::stdout();
    let mut w = std::io::BufWriter::new(stdout.lock());

    let mut cases: Vec<(String, String)> = vec![];
    for line in text.lines() {
        if let Some(id) = line.strip_prefix("%%%% ") {
            cases.push((id.trim().to_string(), String::new()));
        } else if let Some(last) = cases.last_mut() {
            last.1.push_str(line);
            last.1.push('\n');
        }
    }

    for (id, src) in cases {
        writeln!(w, "CASE {}", id).unwrap();
        let di: syn::DeriveInput = match syn::parse_str(&src) {
            Ok(d) => d,
            Err(e) => {
                let mut s = String::new();
                esc(&e.to_string(), &mut s);
                writeln!(w, "NOPARSE {}", s).unwrap();
                continue;
            }
        };
        writeln!(w, "RAW {}", raw(&di)).unwrap();
        // everything up to here must be on the pipe before derive() runs: if the expansion takes the process down (stack overflow,
        // abort) the reader finds the culprit as the case with a RAW line and no OUT line
        w.flush().unwrap();
        let run = |di: &syn::DeriveInput| -> (String, Option<TokenStream>) {
            let r = panic::catch_unwind(panic::AssertUnwindSafe(|| o2o_impl::expand::derive(di)));
            let mut out = String::new();
            match r {
                Ok(Ok(ts)) => {
                    out.push_str("(ok");
                    toks(ts.clone(), &mut out);
                    out.push(')');
                    (out, Some(ts))
                }
                Ok(Err(e)) => {
                    out.push_str("(err");
                    for m in e.into_iter() {
                        out.push(' ');
                        esc(&m.to_string(), &mut out);
                    }
                    out.push(')');
                    (out, None)
                }
                Err(p) => {
                    let msg = if let Some(s) = p.downcast_ref::<&str>() {
                        s.to_string()
                    } else if let Some(s) = p.downcast_ref::<String>() {
                        s.clone()
                    } else {
                        "?".into()
                    };
                    out.push_str("(panic ");
                    esc(&msg, &mut out);
                    out.push(')');
                    (out, None)
                }
            }
        };
        let (o, ts) = run(&di);
        writeln!(w, "OUT {}", o).unwrap();
        if repeat_twice {
            let (o2, _) = run(&di);
            writeln!(w, "OUT2 {}", o2).unwrap();
        }
        if with_str {
            if let Some(ts) = ts {
                let mut s = String::new();
                esc(&ts.to_string(), &mut s);
                writeln!(w, "STR {}", s).unwrap();
            }
        }
    }
    w.flush().unwrap();
}
