(* Driver: reads the harness's RAW lines (canonical s-expressions), runs the extracted model,
   prints the model's outcome in the same canonical form as the harness's OUT lines.
   Hand-written, trusted: s-expression reader/printer and nat conversion only. *)
open Model

type sexp = A of string | S of string (* quoted *) | L of sexp list

let parse_sexp (s : string) : sexp =
  let n = String.length s in
  let pos = ref 0 in
  let rec skip () = while !pos < n && (s.[!pos] = ' ' || s.[!pos] = '\t') do incr pos done
  and parse () : sexp =
    skip ();
    if !pos >= n then failwith "eof";
    match s.[!pos] with
    | '(' ->
        incr pos;
        let items = ref [] in
        let fin = ref false in
        while not !fin do
          skip ();
          if !pos >= n then failwith "eof in list";
          if s.[!pos] = ')' then (incr pos; fin := true)
          else items := parse () :: !items
        done;
        L (List.rev !items)
    | '"' ->
        incr pos;
        let b = Buffer.create 16 in
        let fin = ref false in
        while not !fin do
          if !pos >= n then failwith "eof in string";
          let c = s.[!pos] in
          if c = '"' then (incr pos; fin := true)
          else if c = '\\' then begin
            let d = s.[!pos + 1] in
            (match d with
             | 'n' -> Buffer.add_char b '\n'
             | 'r' -> Buffer.add_char b '\r'
             | 't' -> Buffer.add_char b '\t'
             | c -> Buffer.add_char b c);
            pos := !pos + 2
          end else (Buffer.add_char b c; incr pos)
        done;
        S (Buffer.contents b)
    | _ ->
        let start = !pos in
        (* a punct atom may itself be any single non-space char except parens; idents run to a delimiter *)
        while !pos < n && s.[!pos] <> ' ' && s.[!pos] <> '(' && s.[!pos] <> ')' do incr pos done;
        A (String.sub s start (!pos - start))
  in
  parse ()

let rec nat_of_int (i : int) : nat = if i <= 0 then O else S (nat_of_int (i - 1))
let rec int_of_nat (n : nat) : int = match n with O -> 0 | S m -> 1 + int_of_nat m

let delim_of = function "p" -> DParen | "b" -> DBrace | "k" -> DBracket | "n" -> DNone | d -> failwith ("delim " ^ d)

let rec tok_of (e : sexp) : tok =
  match e with
  | L [A "I"; A s] -> TIdent s
  | L [A "P"; A c; A j] -> TPunct (c.[0], j = "j")
  | L [A "L"; S s] -> TLit s
  | L (A "G" :: A d :: rest) -> TGroup (delim_of d, List.map tok_of rest)
  | _ -> failwith "tok"

let toks_of (l : sexp list) : tok list = List.map tok_of l

let attr_of (e : sexp) : raw_attr =
  match e with
  | L [A "attr"; p; L (A "toks" :: ts)] ->
      let path = match p with L [A "pi"; A s] -> Some s | _ -> None in
      { ra_path = path; ra_toks = toks_of ts }
  | _ -> failwith "attr"

let attrs_of (e : sexp) : raw_attr list =
  match e with L (A "attrs" :: l) -> List.map attr_of l | _ -> failwith "attrs"

let field_of (e : sexp) : raw_field =
  match e with
  | L [A "field"; m; tp; L (A "ty" :: ty); ats] ->
      let mem = match m with
        | L [A "named"; A s] -> MNamed s
        | L [A "index"; A n] -> MIndex (nat_of_int (int_of_string n))
        | _ -> failwith "member" in
      let typath = match tp with
        | L (A "tp" :: A "1" :: ts) -> Some (toks_of ts)
        | _ -> None in
      { rf_member = mem; rf_typath = typath; rf_ty = toks_of ty; rf_attrs = attrs_of ats }
  | _ -> failwith "field"

let fields_of (e : sexp) : raw_field list =
  match e with L (A "fields" :: l) -> List.map field_of l | _ -> failwith "fields"

let shape_of = function "named" -> ShNamed | "tuple" -> ShTuple | "unit" -> ShUnit | s -> failwith ("shape " ^ s)

let variant_of (e : sexp) : raw_variant =
  match e with
  | L [A "variant"; A id; L [A "shape"; A sh]; ats; fs] ->
      { rv_ident = id; rv_shape = shape_of sh; rv_attrs = attrs_of ats; rv_fields = fields_of fs }
  | _ -> failwith "variant"

let gparam_of (e : sexp) : gparam =
  match e with
  | L [A k; A name; A p; L (A "decl" :: ts)] ->
      let kind = match k with "lt" -> GPLt | "ty" -> GPTy | "const" -> GPConst | _ -> failwith "gp" in
      { gp_k = kind; gp_name = name; gp_punct = (p = "1"); gp_decl = toks_of ts }
  | _ -> failwith "gparam"

let input_of (e : sexp) : raw_input =
  match e with
  | L [A "input"; L [A "kind"; A k]; L [A "ident"; A id]; L (A "generics" :: gs); L (A "where" :: ws); ats; body] ->
      let data =
        match k, body with
        | "struct-named", fs -> RStruct (ShNamed, fields_of fs)
        | "struct-tuple", fs -> RStruct (ShTuple, fields_of fs)
        | "struct-unit", fs -> RStruct (ShUnit, fields_of fs)
        | "enum", L (A "variants" :: vs) -> REnum (List.map variant_of vs)
        | "union", _ -> RUnion
        | _ -> failwith "kind" in
      let preds = List.map (function L (A "pred" :: ts) -> toks_of ts | _ -> failwith "pred") ws in
      { ri_ident = id; ri_generics = List.map gparam_of gs; ri_where = preds; ri_attrs = attrs_of ats; ri_data = data }
  | _ -> failwith "input"

(* ---- printing, identical to the harness ---- *)
let esc (b : Buffer.t) (s : string) =
  Buffer.add_char b '"';
  String.iter (fun c ->
    match c with
    | '"' -> Buffer.add_string b "\\\""
    | '\\' -> Buffer.add_string b "\\\\"
    | '\n' -> Buffer.add_string b "\\n"
    | '\r' -> Buffer.add_string b "\\r"
    | '\t' -> Buffer.add_string b "\\t"
    | c -> Buffer.add_char b c) s;
  Buffer.add_char b '"'

let rec print_toks (b : Buffer.t) (ts : tok list) =
  List.iter (fun t ->
    Buffer.add_char b ' ';
    match t with
    | TIdent s -> Buffer.add_string b "(I "; Buffer.add_string b s; Buffer.add_char b ')'
    | TPunct (c, j) ->
        Buffer.add_string b "(P "; Buffer.add_char b c; Buffer.add_char b ' ';
        Buffer.add_char b (if j then 'j' else 'a'); Buffer.add_char b ')'
    | TLit s -> Buffer.add_string b "(L "; esc b s; Buffer.add_char b ')'
    | TGroup (d, inner) ->
        Buffer.add_string b "(G ";
        Buffer.add_char b (match d with DParen -> 'p' | DBrace -> 'b' | DBracket -> 'k' | DNone -> 'n');
        print_toks b inner;
        Buffer.add_char b ')') ts

let print_outcome (o : outcome) : string =
  let b = Buffer.create 1024 in
  (match o with
   | OOk ts -> Buffer.add_string b "(ok"; print_toks b ts; Buffer.add_char b ')'
   | OErr msgs ->
       Buffer.add_string b "(err";
       List.iter (fun m ->
         Buffer.add_char b ' ';
         match m with MLib -> Buffer.add_string b "#lib" | MO2o s -> esc b s) msgs;
       Buffer.add_char b ')'
   | OPanic s -> Buffer.add_string b "(panic "; esc b s; Buffer.add_char b ')'
   | OOom w -> Buffer.add_string b "(oom "; esc b w; Buffer.add_char b ')');
  Buffer.contents b

let () =
  let backend = if Array.length Sys.argv > 1 && Sys.argv.(1) = "s2" then 2 else 1 in
  let ic = if Array.length Sys.argv > 2 then open_in Sys.argv.(2) else stdin in
  let with_str = Array.length Sys.argv > 3 && Sys.argv.(3) = "str" in
  (try
     while true do
       let line = input_line ic in
       if String.length line > 5 && String.sub line 0 5 = "CASE " then print_endline line
       else if String.length line > 4 && String.sub line 0 4 = "RAW " then begin
         let sx = String.sub line 4 (String.length line - 4) in
         let mstr = ref None in
         let out =
           try
             let x = input_of (parse_sexp sx) in
             let o = if backend = 2 then derive2 x else derive1 x in
             (match o with
              | OOk ts when with_str -> let b = Buffer.create 1024 in esc b (toks_to_string ts); mstr := Some (Buffer.contents b)
              | _ -> ());
             print_outcome o
           with
           | Failure m -> "(driver-error \"" ^ m ^ "\")"
           | Stack_overflow -> "(driver-error \"stack overflow\")"
         in
         print_endline ("MODEL " ^ out);
         (match !mstr with Some s -> print_endline ("MSTR " ^ s) | None -> ())
       end
     done
   with End_of_file -> ())
